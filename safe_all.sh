#!/bin/bash
# developer tool: run all quick checks against every property-preserving change under safe_changes/ (3 in parallel)
cd "$(dirname "$(readlink -f "$0")")"
list="${@:-$(ls safe_changes)}"
run_one() { d=$1; slot=$2; SAFE_TARGET=/tmp/safetest-target-$$-$slot SAFE_KEEP=/tmp/safetest-keep ./safetest safe_changes/$d/patch.diff ${SAFE_PROPS:-} 2>&1 | tail -1; }
i=0
for d in $list; do
  run_one $d $((i%3)) &
  i=$((i+1))
  if [ $((i%3)) = 0 ]; then wait; fi
done
wait
rm -rf /tmp/safetest-target-$$-0 /tmp/safetest-target-$$-1 /tmp/safetest-target-$$-2
