#!/bin/bash
cd "$(dirname "$(readlink -f "$0")")"
run() { ./seedtest "$@" 2>&1 | tail -1; }
run /tmp/seed-C01/SEED1 C01 C08
run /tmp/seed-C01/SEED2 C01 C06
run /tmp/seed-C03/SEED1 C03
run /tmp/seed-C03/SEED2 C03
run /tmp/seed-C04/SEED1 C04
run /tmp/seed-C04/SEED2 C04
run /tmp/seed-C06/SEED1 C06
run /tmp/seed-C06/SEED2 C06
run /tmp/seed-C07/SEED1 C07 C12
run /tmp/seed-C07/SEED2 C07 C05
run /tmp/seed-C08/SEED1 C08 C10
run /tmp/seed-C08/SEED2 C08 C06
run /tmp/seed-C10/SEED1 C10
run /tmp/seed-C10/SEED2 C10 C14
run /tmp/seed-C12/SEED1 C12 C07
run /tmp/seed-C12/SEED2 C12
run /tmp/seed-C20/SEED1 C20 C06
run /tmp/seed-C20/SEED2 C20
