#!/bin/bash
cd "$(dirname "$(readlink -f "$0")")"
run() { ./seedtest "$@" 2>&1 | tail -1; }
run /tmp/seed-C02/SEED1 C02 C04
run /tmp/seed-C02/SEED2 C02
run /tmp/seed-C05/SEED1 C05 C06
run /tmp/seed-C05/SEED2 C05 C11
run /tmp/seed-C09/SEED1 C09
run /tmp/seed-C09/SEED2 C09
run /tmp/seed-C11/SEED1 C11 C14
run /tmp/seed-C11/SEED2 C11 C05
run /tmp/seed-C14/SEED1 C14 C10
run /tmp/seed-C14/SEED2 C14 C10
run /tmp/seed-C15/SEED1 C15
run /tmp/seed-C15/SEED2 C15
run /tmp/seed-C16/SEED1 C16
run /tmp/seed-C16/SEED2 C16
run /tmp/seed-C17/SEED1 C17 C11
run /tmp/seed-C17/SEED2 C17 C07
run /tmp/seed-C18/SEED1 C18
run /tmp/seed-C18/SEED2 C18
run /tmp/seed-C19/SEED1 C19
run /tmp/seed-C19/SEED2 C19 C01
# re-evaluation of first-batch seeds against the strengthened checks
run /tmp/seed-C06/SEED2 C06
run /tmp/seed-C07/SEED2 C07 C05
run /tmp/seed-C20/SEED1 C20 C06
run /tmp/seed-C20/SEED2 C20 C03
run /tmp/seed-C01/SEED1 C01 C08
run /tmp/seed-C13/SEED2 C13 C12
