#!/bin/bash
# developer tool: seedtest for an explicit list of seed ids (own property's check), 4 slots
cd "$(dirname "$(readlink -f "$0")")"
N=4
list="$@"
slot() { k=$1; i=0; for id in $list; do if [ $((i % N)) = $k ] && [ -d seeded/$id ]; then prop=${id%%-*}; SEED_TARGET=/tmp/seedtest-target-$$-$k ./seedtest seeded/$id $prop 2>&1 | tail -1; fi; i=$((i+1)); done; rm -rf /tmp/seedtest-target-$$-$k; }
for k in 0 1 2 3; do slot $k & done
wait
