#!/bin/bash
# developer tool: round-5 seeds (ids Cxx-11, Cxx-12) against their own property's check, 4 slots
cd "$(dirname "$(readlink -f "$0")")"
N=4
list=""
for i in ${@:-01 02 03 04 05 06 07 08 09 10 11 12 13 14 15 16 17 18 19 20}; do list="$list C$i-11 C$i-12"; done
slot() { k=$1; i=0; for id in $list; do if [ $((i % N)) = $k ] && [ -d seeded/$id ]; then prop=${id%%-*}; MC_EARLY=1 SEED_TARGET=/tmp/seedtest-target-$$-$k ./seedtest seeded/$id $prop 2>&1 | tail -1; fi; i=$((i+1)); done; rm -rf /tmp/seedtest-target-$$-$k; }
for k in 0 1 2 3; do slot $k & done
wait
