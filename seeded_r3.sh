#!/bin/bash
cd "$(dirname "$(readlink -f "$0")")"
for d in seeded/C*-[678]/ seeded/C13-5/; do
  id=$(basename $d); prop=${id%%-*}
  extra=$(grep "^$id " seeded/extra.txt 2>/dev/null | cut -d' ' -f2-)
  ./seedtest $d $prop $extra 2>&1 | tail -1
done
