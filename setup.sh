#!/bin/bash
ROOT="$(cd "$(dirname "$(readlink -f "$0")")" && pwd)"; export MC_VERIF_ROOT="$ROOT"
# build every harness variant offline from /repo's working tree
cd "$ROOT"
export CARGO_NET_OFFLINE=true
rc=0
for v in batch nobatch wrap nobatch-wrap; do ./build.sh $v >/dev/null || rc=1; done
./build_ptr16.sh >/dev/null || rc=1
rm -rf /tmp/mipidsi-verif-ptr16-src
exit $rc
