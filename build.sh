#!/bin/bash
# build one harness variant from /repo's current working tree: build.sh <batch|nobatch|wrap|nobatch-wrap>
set -e
v="$1"
cd /verif/mc
export CARGO_NET_OFFLINE=true RUSTFLAGS="--cfg mipidsi_verif"
feat=""; prof="--release"
case "$v" in
  batch) ;;
  nobatch) feat="--no-default-features" ;;
  wrap) prof="--profile wrap" ;;
  nobatch-wrap) feat="--no-default-features"; prof="--profile wrap" ;;
  *) echo "unknown variant $v" >&2; exit 2 ;;
esac
CARGO_TARGET_DIR=/verif/target/$v cargo build $prof $feat --quiet 2>&1 | grep -v "^warning: unused\|^$" | head -40 >&2 || true
d=release; [[ "$v" == *wrap* ]] && d=wrap
test -x /verif/target/$v/$d/mc || { echo "MACHINERY: build of variant $v failed" >&2; exit 2; }
echo /verif/target/$v/$d/mc
