#!/bin/bash
ROOT="$(cd "$(dirname "$(readlink -f "$0")")" && pwd)"; export MC_VERIF_ROOT="$ROOT"
# build one harness variant from /repo's current working tree: build.sh <batch|nobatch|wrap|nobatch-wrap>
set -e
v="$1"
cd "$ROOT/mc"
export CARGO_NET_OFFLINE=true RUSTFLAGS="--cfg mipidsi_verif"
feat=""; prof="--release"
case "$v" in
  batch) ;;
  nobatch) feat="--no-default-features" ;;
  wrap) prof="--profile wrap" ;;
  nobatch-wrap) feat="--no-default-features"; prof="--profile wrap" ;;
  *) echo "unknown variant $v" >&2; exit 2 ;;
esac
# MIPIDSI_SRC=<dir>: build against a scratch copy of the repository instead of /repo (self-test only)
tdir="$ROOT/target/$v"; cfgarg=()
if [ -n "${MIPIDSI_SRC:-}" ]; then
  tdir="${MC_TARGET_BASE:-/tmp/mc-target}/$v"; cfgarg=(--config "patch.crates-io.mipidsi.path=\"$MIPIDSI_SRC\"")
fi
mkdir -p "$tdir"; CARGO_TARGET_DIR=$tdir cargo build $prof $feat --quiet "${cfgarg[@]}" >"$tdir.log" 2>&1 || { tail -40 "$tdir.log" >&2; echo "MACHINERY: cargo build failed" >&2; exit 2; }
d=release; [[ "$v" == *wrap* ]] && d=wrap
test -x $tdir/$d/mc || { echo "MACHINERY: build of variant $v failed" >&2; exit 2; }
echo $tdir/$d/mc
