#!/bin/bash
cd "$(dirname "$(readlink -f "$0")")"
for p in C05 C09 C11 C13 C14 C15 C16 C17 C18 C19; do
 for d in seeded/$p-[678]/; do
  id=$(basename $d); prop=${id%%-*}
  extra=$(grep "^$id " seeded/extra.txt 2>/dev/null | cut -d' ' -f2-)
  ./seedtest $d $prop $extra 2>&1 | tail -1
 done
done
./seedtest seeded/C01-8 C01 2>&1 | tail -1
