#!/bin/bash
ROOT="$(cd "$(dirname "$(readlink -f "$0")")" && pwd)"; export MC_VERIF_ROOT="$ROOT"
# Build the harness against a scratch copy of /repo in which the two target_pointer_width="16"
# predicates of src/graphics.rs are flipped, so the real 16-bit take_u32/nth_u32 bodies are
# compiled on this host.  The copy lives in /tmp and is removed by ./check.
set -e
src=/tmp/mipidsi-verif-ptr16-src
tdir="$ROOT/target/ptr16"
[ -n "${MIPIDSI_SRC:-}" ] && { src=/tmp/mipidsi-verif-ptr16-src-alt; tdir="${MC_TARGET_BASE:-/tmp/mc-target}/ptr16"; }
rm -rf "$src"; mkdir -p "$src"
# copy the working tree (tracked + modified files), preserving mtimes so cargo can reuse its cache
( cd "${MIPIDSI_SRC:-/repo}" && tar --exclude=./target --exclude=./.git -cf - . ) | ( cd "$src" && tar -xpf - )
python3 - "$src/src/graphics.rs" <<'PY'
import sys,re
p=sys.argv[1]; s=open(p).read()
a='#[cfg(not(target_pointer_width = "16"))]'
b='#[cfg(target_pointer_width = "16")]'
na, nb = s.count(a), s.count(b)
if na!=2 or nb!=2:
    sys.stderr.write(f"MACHINERY: ptr16 rewrite expects exactly 2+2 cfg lines in graphics.rs, found {na}+{nb}\n"); sys.exit(2)
s=s.replace(a,'#[cfg(any())]').replace(b,'#[cfg(all())]')
import os
st=os.stat(p); open(p,'w').write(s); os.utime(p,(st.st_atime,st.st_mtime))
PY
cd "$ROOT/mc"
export CARGO_NET_OFFLINE=true RUSTFLAGS="--cfg mipidsi_verif"
mkdir -p "$tdir"; CARGO_TARGET_DIR=$tdir cargo build --release --quiet --config "patch.crates-io.mipidsi.path=\"$src\"" >"$tdir.log" 2>&1 || { tail -40 "$tdir.log" >&2; echo "MACHINERY: cargo build failed" >&2; exit 2; }
test -x $tdir/release/mc || { echo "MACHINERY: build of variant ptr16 failed" >&2; exit 2; }
echo $tdir/release/mc
