#!/bin/bash
ROOT="$(cd "$(dirname "$(readlink -f "$0")")" && pwd)"; export MC_VERIF_ROOT="$ROOT"
# Build the harness against a scratch copy of /repo in which the two target_pointer_width="16"
# predicates of src/graphics.rs are flipped, so the real 16-bit take_u32/nth_u32 bodies are
# compiled on this host.  The copy lives in /tmp only while this script runs (serialised by a lock, so checks started
# in parallel do not disturb each other) and is removed before it returns.
set -e
src=/tmp/mipidsi-verif-ptr16-src
tdir="$ROOT/target/ptr16"
[ -n "${MIPIDSI_SRC:-}" ] && { src="${MC_TARGET_BASE:-/tmp/mc-target}/ptr16-src"; tdir="${MC_TARGET_BASE:-/tmp/mc-target}/ptr16"; }
mkdir -p "$tdir"; exec 9>"$tdir.lock"; flock 9
trap 'rm -rf "$src"' EXIT
rm -rf "$src"; mkdir -p "$src"
# copy the working tree (tracked + modified files), preserving mtimes so cargo can reuse its cache
( cd "${MIPIDSI_SRC:-/repo}" && tar --exclude=./target --exclude=./.git -cf - . ) | ( cd "$src" && tar -xpf - )
python3 - "$src/src" <<'PY'
# flip every target_pointer_width="16" predicate under src/ (at the pinned commit: 2+2 lines in graphics.rs), so a
# refactoring that moves the helpers to another file is still compiled the 16-bit way; zero predicates means the
# tree has no pointer-width-specific code left and the variant equals the default build.
import sys,os
root=sys.argv[1]
a='#[cfg(not(target_pointer_width = "16"))]'
b='#[cfg(target_pointer_width = "16")]'
tot=0
for d,_,fs in os.walk(root):
    for f in fs:
        if not f.endswith('.rs'): continue
        p=os.path.join(d,f); s=open(p).read()
        n=s.count(a)+s.count(b)
        if n==0: continue
        tot+=n
        s=s.replace(a,'#[cfg(any())]').replace(b,'#[cfg(all())]')
        st=os.stat(p); open(p,'w').write(s); os.utime(p,(st.st_atime,st.st_mtime))
sys.stderr.write(f"ptr16: flipped {tot} cfg predicates\n")
PY
cd "$ROOT/mc"
export CARGO_NET_OFFLINE=true RUSTFLAGS="--cfg mipidsi_verif"
mkdir -p "$tdir"; CARGO_TARGET_DIR=$tdir cargo build --release --quiet --config "patch.crates-io.mipidsi.path=\"$src\"" >"$tdir.log" 2>&1 || { tail -40 "$tdir.log" >&2; echo "MACHINERY: cargo build failed" >&2; exit 2; }
test -x $tdir/release/mc || { echo "MACHINERY: build of variant ptr16 failed" >&2; exit 2; }
echo $tdir/release/mc
