#!/bin/bash
# developer tool: round-6 seeds (ids Cxx-13) against their own property's check, one slot per seed (full confirmation)
cd "$(dirname "$(readlink -f "$0")")"
for id in ${@:-$(ls seeded | grep -- '-13$')}; do
  prop=${id%%-*}
  ( MC_EARLY=1 SEED_TARGET=/tmp/seedtest-target-r6-$id ./seedtest seeded/$id $prop 2>&1 | tail -1; rm -rf /tmp/seedtest-target-r6-$id ) &
done
wait
