#!/bin/bash
# developer tool: regenerate the committed evidence (quick tier, from /verif against /repo), the DESIGN tables and validate the JSON files
cd "$(dirname "$(readlink -f "$0")")"
rc=0
for i in $(seq -w 1 20); do ./check C$i --tier quick 2>&1 | tail -1; [ ${PIPESTATUS[0]} -eq 0 ] || rc=1; done
python3 tools_tables.py logs/thorough.log logs/seeds-final.log logs/safe-final.log,logs/safe-final-2.log
python3-vt - <<'PY'
import json,glob,jsonschema
jsonschema.validate(json.load(open('/verif/MANIFEST.json')), json.load(open('/root/.vp/MANIFEST.schema.json')))
sch=json.load(open('/root/.vp/EVIDENCE.schema.json'))
for f in sorted(glob.glob('/verif/evidence/C*.json')): jsonschema.validate(json.load(open(f)), sch)
print('manifest and 20 evidence files valid')
PY
exit $rc
