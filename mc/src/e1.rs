//! E1 - explicit-state closure with stateright: every transition executes the real code by
//! deterministic replay of the action history on fresh objects (live displays cannot be cloned).
#![allow(dead_code)]

use std::hash::{Hash, Hasher};
use std::sync::atomic::{AtomicU64, Ordering};

use stateright::{Checker, Model, Property};

/// A closed system explored by replay.
pub trait Sys: Send + Sync + 'static {
    /// number of initial states (e.g. configurations, initial pin patterns)
    fn roots(&self) -> usize;
    /// actions enabled in a state (the alphabet may depend on the root only)
    fn actions(&self, root: usize) -> Vec<u32>;
    /// Execute `hist` from root on the real code. Returns the canonical implementation-state key
    /// and, if an invariant failed on the *last* transition or in the reached state, a message
    /// `signature|text`.
    fn exec(&self, root: usize, hist: &[u32]) -> (Vec<u64>, Option<String>);
    /// is the last action of `hist` enabled after the rest of it? (e.g. deviation bound on faults)
    fn enabled(&self, _root: usize, _hist: &[u32]) -> bool {
        true
    }
    /// Do different roots span disjoint state spaces (configurations), or are they merely
    /// different initial states of one system (then states reached from different roots merge)?
    fn root_in_key(&self) -> bool {
        true
    }
    /// maximum history length to expand (closure is normally reached well before)
    fn max_depth(&self) -> usize {
        64
    }
}

#[derive(Clone, Debug)]
pub struct RState {
    /// root for replay
    pub root: u32,
    /// root as part of the state identity (0 if roots are initial states of one system)
    pub kroot: u32,
    pub key: Vec<u64>,
    pub hist: Vec<u32>,
    pub bad: Option<String>,
}
impl PartialEq for RState {
    fn eq(&self, o: &RState) -> bool {
        self.kroot == o.kroot && self.key == o.key && self.bad.is_some() == o.bad.is_some()
    }
}
impl Eq for RState {}
impl Hash for RState {
    fn hash<H: Hasher>(&self, h: &mut H) {
        self.kroot.hash(h);
        self.key.hash(h);
        self.bad.is_some().hash(h);
    }
}

thread_local! {
    /// set by `Sys::exec` to mark the transition it just executed as non-trivial
    pub static FLAG: std::cell::Cell<bool> = const { std::cell::Cell::new(false) };
}
pub fn flag() {
    FLAG.with(|f| f.set(true));
}

pub struct Replay<S: Sys> {
    pub sys: S,
    pub transitions: AtomicU64,
    pub flagged: AtomicU64,
}

impl<S: Sys> Model for Replay<S> {
    type State = RState;
    type Action = u32;

    fn init_states(&self) -> Vec<RState> {
        (0..self.sys.roots())
            .map(|r| {
                let (key, bad) = self.sys.exec(r, &[]);
                RState { root: r as u32, kroot: if self.sys.root_in_key() { r as u32 } else { 0 }, key, hist: vec![], bad }
            })
            .collect()
    }
    fn actions(&self, s: &RState, out: &mut Vec<u32>) {
        if s.bad.is_some() || s.hist.len() >= self.sys.max_depth() {
            return;
        }
        out.extend(self.sys.actions(s.root as usize));
    }
    fn next_state(&self, s: &RState, a: u32) -> Option<RState> {
        let mut hist = s.hist.clone();
        hist.push(a);
        if !self.sys.enabled(s.root as usize, &hist) {
            return None;
        }
        let n = self.transitions.fetch_add(1, Ordering::Relaxed);
        if n % 200_000 == 0 && std::env::var_os("MC_VERBOSE").is_some() {
            eprintln!("  e1: {n} transitions, depth {}", hist.len());
        }
        FLAG.with(|f| f.set(false));
        let (key, bad) = self.sys.exec(s.root as usize, &hist);
        if FLAG.with(|f| f.get()) {
            self.flagged.fetch_add(1, Ordering::Relaxed);
        }
        Some(RState { root: s.root, kroot: s.kroot, key, hist, bad })
    }
    fn properties(&self) -> Vec<Property<Self>> {
        vec![Property::always("invariants", |_, s: &RState| s.bad.is_none())]
    }
}

pub struct Closure {
    pub unique_states: u64,
    pub generated_states: u64,
    pub transitions: u64,
    /// transitions marked non-trivial by the system (measured in one complete exploration)
    pub flagged: u64,
    pub max_depth: u64,
    /// (root, action history, message) of the shortest counterexample, if any
    pub counterexample: Option<(usize, Vec<u32>, String)>,
}

/// Run the closure with `threads` worker threads (BFS: the first counterexample is a shortest one).
pub fn close<S: Sys>(sys: S, threads: usize) -> Closure {
    let model = Replay { sys, transitions: AtomicU64::new(0), flagged: AtomicU64::new(0) };
    let checker = model.checker().threads(threads).spawn_bfs().join();
    let cex = checker.discovery("invariants").map(|p| {
        let last = p.last_state().clone();
        (last.root as usize, last.hist.clone(), last.bad.clone().unwrap_or_default())
    });
    Closure {
        unique_states: checker.unique_state_count() as u64,
        generated_states: checker.state_count() as u64,
        transitions: checker.model().transitions.load(Ordering::Relaxed),
        flagged: checker.model().flagged.load(Ordering::Relaxed),
        max_depth: checker.max_depth() as u64,
        counterexample: cex,
    }
}

/// Run twice (1 thread and many threads) and compare the unique-state counts: determinism check.
pub fn close_checked<S: Sys + Clone>(sys: S, threads: usize) -> Result<Closure, String> {
    let a = close(sys.clone(), 1);
    if a.counterexample.is_some() {
        return Ok(a);
    }
    let b = close(sys, threads);
    if b.counterexample.is_none() && a.unique_states != b.unique_states {
        return Err(format!(
            "non-deterministic exploration: {} unique states with 1 thread, {} with {} threads",
            a.unique_states, b.unique_states, threads
        ));
    }
    Ok(Closure { transitions: a.transitions, flagged: a.flagged, generated_states: a.generated_states, ..b })
}
