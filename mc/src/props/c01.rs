//! C01 - drawn pixels land at the oriented, offset panel position (every entry point)
use std::collections::HashSet;
use std::time::Instant;

use rayon::prelude::*;
use serde_json::json;

use super::common::*;
use super::Entry;
use crate::dut::*;
use crate::report::*;
use crate::rig::*;

pub const ENTRY: Entry = Entry {
    id: "C01",
    variants: &["batch", "nobatch"],
    level: "model_checking",
    rule: "odometer over (framebuffer shape x every window accepted by init x 8 orientations x colour type x transport) x the \
           in-bounds drawing alphabet (every position / every sub-rectangle / every ordered pixel pair); each case is executed on \
           the real driver from init and compared with the canvas specification through the pin-level decoder and the reference \
           controller; plus every combination of 8 orientations x 4 refresh orders x 2 colour orders x 2 inversions on the external model and on every built-in model (boundary program, run-time orientation change, boundary program again); plus long runs (1100 calls on one display, every call checked); plus one chained program per configuration (all operations on one display, non-initial transport states) and \
           depth-2 programs in thorough. Alphabets are deduplicated, so every case is distinct; non-trivial = the call wrote at \
           least one framebuffer cell.",
    assumptions: &[
        "reference MIPI-DCS controller model (ctl.rs) decodes the bus like the real controllers (MV, then MX/MY; column-first pointer)",
        "small-scope: window arithmetic is parametric in sizes; shapes up to 5x5 plus u16 extremes exercise every carry/borrow",
        "external models are represented by the const-generic Tiny model",
    ],
    run,
};

/// the in-bounds drawing alphabet for a logical size
pub fn alphabet(lw: u32, lh: u32, pairs: bool) -> Vec<Op> {
    let mut ops = Vec::new();
    let base = 0x0101;
    // set_pixel at every position
    for y in 0..lh {
        for x in 0..lw {
            ops.push(Op::SetPixel { x: x as u16, y: y as u16, c: base + y * lw + x });
        }
    }
    // every sub-rectangle
    for y0 in 0..lh {
        for y1 in y0..lh {
            for x0 in 0..lw {
                for x1 in x0..lw {
                    let area = ((x1 - x0 + 1) * (y1 - y0 + 1)) as u64;
                    let r = Rect { x: x0 as i32, y: y0 as i32, w: x1 - x0 + 1, h: y1 - y0 + 1 };
                    let mut lens = vec![area];
                    if area > 1 {
                        lens.push(area - 1);
                        lens.push(1);
                    }
                    for l in lens {
                        ops.push(Op::SetPixels {
                            sx: x0 as u16,
                            sy: y0 as u16,
                            ex: x1 as u16,
                            ey: y1 as u16,
                            colors: Colors::Coded { base: 0x0201, len: Some(l) },
                        });
                    }
                    ops.push(Op::FillSolid { r, c: 0x0301 + area as u32 });
                    ops.push(Op::FillContiguous { r, colors: Colors::Coded { base: 0x0401, len: Some(area) } });
                    if area > 1 {
                        // a colour stream that ends early: the remaining points stay untouched (and nothing stale is sent)
                        ops.push(Op::FillContiguous { r, colors: Colors::Coded { base: 0x0411, len: Some(area - 1) } });
                        ops.push(Op::FillContiguous { r, colors: Colors::Coded { base: 0x0421, len: Some(1) } });
                    }
                    ops.push(Op::DrawIter(Pixels::Syms { syms: vec![Sym::Block { x: r.x, y: r.y, w: r.w, h: r.h }], base: 0x0501 }));
                }
            }
        }
    }
    ops.push(Op::Clear { c: 0x0601 });
    // a colour whose first and last bus word are equal but whose middle word differs (green in Rgb666)
    ops.push(Op::Clear { c: 0x0FC0 });
    // draw_iter: every single pixel and every ordered pair (same position twice included)
    for p in 0..(lw * lh) {
        let (x, y) = ((p % lw) as i32, (p / lw) as i32);
        ops.push(Op::DrawIter(Pixels::List(vec![(x, y, 0x0701 + p)])));
        if pairs {
            for q in 0..(lw * lh) {
                let (x2, y2) = ((q % lw) as i32, (q / lw) as i32);
                ops.push(Op::DrawIter(Pixels::List(vec![(x, y, 0x0801 + p), (x2, y2, 0x0901 + q)])));
            }
        }
    }
    ops
}

pub fn transports(c666: bool, quick: bool) -> Vec<Transport> {
    let n: u16 = if c666 { 3 } else { 2 };
    let mut v = vec![Transport::RecSerial, Transport::Spi { len: n }, Transport::Spi { len: n + 1 }, Transport::Spi { len: 2 * n + 1 }, Transport::Par8];
    // a staging buffer larger than any burst of the small displays (single-transaction paths)
    v.push(Transport::Spi { len: 64 });
    if !c666 {
        v.push(Transport::RecPar16);
        v.push(Transport::Par16);
    }
    v
}

fn check_one(ctx: &Ctx, acc: &mut Acc, cfg: &Cfg, hist: &[Op], states: &mut HashSet<u64>) {
    acc.evaluations += 1;
    acc.transitions += hist.len() as u64;
    acc.traces += 1;
    match check_history(cfg, hist, &Checks::ALL) {
        Ok(run) => {
            if run.rig.ctl.mem.writes > 0 {
                acc.nontrivial += 1;
            }
            let mut h = crate::util::Fnv::new();
            h.u64(run.rig.ctl.mem.digest());
            h.u64(run.rig.ctl.n_ramwr);
            acc.outcome(h.finish());
            states.extend(run.state_keys.iter().copied());
        }
        Err((f, _)) => acc.violation(violation(ctx, cfg, hist, "all", &f)),
    }
}

fn run(ctx: &Ctx) -> Part {
    let t0 = Instant::now();
    let quick = ctx.quick();
    let shapes: Vec<(u16, u16)> = if quick {
        vec![(1, 1), (1, 3), (2, 2), (3, 2), (2, 3), (4, 3), (3, 4)]
    } else {
        vec![(1, 1), (1, 3), (2, 2), (3, 2), (2, 3), (3, 3), (4, 2), (4, 3), (3, 4), (4, 4), (5, 3), (3, 5), (5, 4), (4, 5), (5, 5)]
    };
    // ---- leg A + B: small shapes ----------------------------------------------------------------
    let mut jobs: Vec<(Cfg, bool)> = Vec::new();
    for &(fw, fh) in &shapes {
        for c666 in [false, true] {
            if quick && c666 && !matches!((fw, fh), (2, 2) | (3, 2) | (4, 3)) {
                continue;
            }
            if !quick && c666 && fw * fh > 12 {
                continue;
            }
            for tr in transports(c666, quick) {
                // the biggest shapes only on the recording interface and the 8-bit parallel bus in thorough
                if fw * fh > 16 && !matches!(tr, Transport::RecSerial | Transport::Par8 | Transport::Spi { len: 3 }) {
                    continue;
                }
                for win in window_configs(fw, fh) {
                    for o in 0..8u8 {
                        let cfg = Cfg::tiny(fw, fh, c666, tr, win, o);
                        let pairs = fw * fh <= 12 || matches!(tr, Transport::RecSerial);
                        jobs.push((cfg, pairs));
                    }
                }
            }
        }
    }
    let n_cfg = jobs.len();
    let acc = jobs
        .par_iter()
        .fold(
            Acc::new,
            |mut acc, (cfg, pairs)| {
                let mut states = HashSet::new();
                let (lw, lh) = cfg.geo().lsize();
                let ops = alphabet(lw, lh, *pairs);
                for op in &ops {
                    check_one(ctx, &mut acc, cfg, std::slice::from_ref(op), &mut states);
                }
                // leg B: one chained program (every operation of the alphabet without pairs, in order,
                // then reversed) on a single display: non-initial transport states
                let mut chain = alphabet(lw, lh, false);
                let rev: Vec<Op> = chain.iter().rev().cloned().collect();
                chain.extend(rev);
                check_one(ctx, &mut acc, cfg, &chain, &mut states);
                acc.count("chained_programs", 1);
                if acc.samples.is_empty() {
                    acc.sample(json!({"cfg": cfg, "history": [ops[ops.len() / 2]]}));
                }
                acc.states += states.len() as u64;
                acc
            },
        )
        .reduce(Acc::new, Acc::merge);
    let mut acc = acc;
    acc.count("configurations_small", n_cfg as u64);

    // ---- all depth-3 programs on the smallest displays (quick too): draw / other call / draw again ----
    // (cached-window or cached-bus-state mistakes need an A, B, A' history; the chained program
    // above only contains one particular order)
    {
        let mut jobs3 = Vec::new();
        let d3: Vec<(u16, u16, (u16, u16, u16, u16))> = if quick {
            vec![(2, 2, (2, 2, 0, 0)), (3, 2, (2, 2, 1, 0)), (2, 3, (2, 1, 0, 1))]
        } else {
            vec![(2, 2, (2, 2, 0, 0)), (3, 2, (2, 2, 1, 0)), (2, 3, (2, 1, 0, 1)), (3, 2, (3, 2, 0, 0)), (2, 3, (1, 3, 1, 0)), (4, 2, (3, 1, 1, 1)), (1, 3, (1, 2, 0, 1))]
        };
        for &(fw, fh, win) in &d3 {
            for tr in [Transport::RecSerial, Transport::Par8, Transport::Spi { len: 3 }, Transport::Par16, Transport::Spi { len: 5 }] {
                for o in 0u8..8 {
                    if quick && (matches!(tr, Transport::Par16 | Transport::Spi { len: 5 }) || ![0, 3, 5].contains(&o)) {
                        continue;
                    }
                    if tr.is_real() && o != 3 && quick {
                        continue;
                    }
                    jobs3.push(Cfg::tiny(fw, fh, false, tr, win, o));
                }
            }
        }
        let work: Vec<(Cfg, usize)> = jobs3
            .iter()
            .flat_map(|c| {
                let (lw, lh) = c.geo().lsize();
                (0..alphabet(lw, lh, false).len()).map(move |i| (*c, i))
            })
            .collect();
        let a3 = work
            .par_iter()
            .fold(Acc::new, |mut acc, (cfg, i)| {
                let mut states = HashSet::new();
                let (lw, lh) = cfg.geo().lsize();
                let ops = alphabet(lw, lh, false);
                // the other public calls may sit between two drawing calls (state carried between calls)
                let mut mid = ops.clone();
                mid.extend([Op::Sleep, Op::Wake, Op::Tearing(0), Op::Tearing(1), Op::Tearing(2), Op::ScrollRegion(1, 0), Op::ScrollOffset(1)]);
                for b in &mid {
                    for c in &ops {
                        check_one(ctx, &mut acc, cfg, &[ops[*i].clone(), b.clone(), c.clone()], &mut states);
                    }
                }
                // ... or come first, twice
                if *i < 7 {
                    let first = mid[ops.len() + *i].clone();
                    for b in &mid {
                        for c in &ops {
                            check_one(ctx, &mut acc, cfg, &[first.clone(), b.clone(), c.clone()], &mut states);
                        }
                    }
                }
                acc.count("depth3_programs", (ops.len() * ops.len()) as u64);
                // draw / change the orientation to one with the same logical size / draw again
                // (a cached window or offset that survives the orientation change shows here)
                for o2 in 0..8u8 {
                    if (o2 & 1) != (cfg.orient & 1) || o2 == cfg.orient {
                        continue;
                    }
                    for c in &ops {
                        check_one(ctx, &mut acc, cfg, &[ops[*i].clone(), Op::SetOrientation(o2), c.clone()], &mut states);
                        acc.count("depth3_programs_with_orientation_change", 1);
                    }
                }
                acc.states += states.len() as u64;
                acc
            })
            .reduce(Acc::new, Acc::merge);
        acc = acc.merge(a3);
    }

    // ---- rasters larger than the driver's internal row/block capacities (index-coded colours) ----------
    {
        let mut jobs4 = Vec::new();
        for win in [(40u16, 35u16, 0u16, 0u16), (34, 32, 3, 3)] {
            for o in [0u8, 3, 6] {
                for tr in [Transport::RecSerial, Transport::Par8, Transport::Spi { len: 7 }] {
                    jobs4.push(Cfg::tiny(40, 35, false, tr, win, o));
                }
            }
        }
        let a4 = jobs4
            .par_iter()
            .fold(Acc::new, |mut acc, cfg| {
                let mut states = HashSet::new();
                let mut hist = Vec::new();
                for (w, h) in [(16u32, 7u32), (26, 4), (33, 4), (7, 16), (25, 5), (30, 30)] {
                    for (x, y) in [(0i32, 0i32), (1, 2)] {
                        let (lw, lh) = cfg.geo().lsize();
                        if x as u32 + w > lw || y as u32 + h > lh {
                            continue; // in-bounds calls only (set_pixels with out-of-range arguments is undefined)
                        }
                        let r = Rect { x, y, w, h };
                        hist.push(Op::DrawIter(Pixels::Syms { syms: vec![Sym::Block { x, y, w, h }], base: 0x1000 }));
                        hist.push(Op::FillContiguous { r, colors: Colors::Coded { base: 0x2000, len: Some((w * h) as u64) } });
                        hist.push(Op::SetPixels { sx: x as u16, sy: y as u16, ex: (x as u32 + w - 1) as u16, ey: (y as u32 + h - 1) as u16, colors: Colors::Coded { base: 0x3000, len: Some((w * h) as u64) } });
                    }
                }
                for op in &hist {
                    check_one(ctx, &mut acc, cfg, std::slice::from_ref(op), &mut states);
                }
                check_one(ctx, &mut acc, cfg, &hist, &mut states);
                acc.count("large_raster_configs", 1);
                acc.states += states.len() as u64;
                acc
            })
            .reduce(Acc::new, Acc::merge);
        acc = acc.merge(a4);
    }

    // ---- depth-2 programs (thorough) ------------------------------------------------------------
    if !quick {
        let mut jobs2 = Vec::new();
        for &(fw, fh) in &[(2u16, 2u16), (3, 2), (2, 3)] {
            for tr in [Transport::RecSerial, Transport::Par8, Transport::Spi { len: 3 }, Transport::Par16] {
                for win in window_configs(fw, fh) {
                    for o in 0..8u8 {
                        jobs2.push(Cfg::tiny(fw, fh, false, tr, win, o));
                    }
                }
            }
        }
        let a2 = jobs2
            .par_iter()
            .fold(
                Acc::new,
                |mut acc, cfg| {
                    let mut states = HashSet::new();
                    let (lw, lh) = cfg.geo().lsize();
                    let ops = alphabet(lw, lh, false);
                    for a in &ops {
                        for b in &ops {
                            check_one(ctx, &mut acc, cfg, &[a.clone(), b.clone()], &mut states);
                            acc.count("depth2_programs", 1);
                        }
                    }
                    acc.states += states.len() as u64;
                    acc
                },
            )
            .reduce(Acc::new, Acc::merge);
        acc = acc.merge(a2);
    }

    // ---- long runs on one display (explicit horizon: 1100 calls cycling through the alphabet, with an orientation change
    // every 97 calls), every call compared with the canvas: state that only shows after many calls
    {
        let ljobs: Vec<Cfg> = vec![
            Cfg::tiny(4, 3, false, Transport::RecSerial, (3, 2, 1, 1), 5),
            Cfg::tiny(4, 3, false, Transport::Spi { len: 5 }, (3, 2, 1, 0), 2),
            Cfg::tiny(4, 3, false, Transport::Par8, (2, 2, 1, 1), 7),
            Cfg::tiny(4, 3, true, Transport::Spi { len: 7 }, (3, 2, 0, 1), 0),
            Cfg::tiny(4, 3, false, Transport::Par16, (3, 3, 1, 0), 4),
        ];
        let a = ljobs
            .par_iter()
            .fold(Acc::new, |mut acc, cfg| {
                let mut states = HashSet::new();
                let mut hist: Vec<Op> = Vec::with_capacity(1100);
                let mut o = cfg.orient;
                let mut i = 0usize;
                while hist.len() < 1100 {
                    let g = crate::spec::Geo { orient: o, ..cfg.geo() };
                    let (lw, lh) = g.lsize();
                    let ops = alphabet(lw, lh, false);
                    hist.push(ops[(i * 5 + i / 3) % ops.len()].clone());
                    i += 1;
                    if i % 97 == 0 {
                        o = (o + 3) % 8;
                        hist.push(Op::SetOrientation(o));
                    }
                }
                check_one(ctx, &mut acc, cfg, &hist, &mut states);
                acc.count("long_run_calls", hist.len() as u64);
                acc.states += states.len() as u64;
                acc
            })
            .reduce(Acc::new, Acc::merge);
        acc = acc.merge(a);
    }

    // ---- every option combination: 8 orientations x 4 refresh orders x 2 colour orders x 2 inversions (position must
    // not depend on the other options), on the external model and on every built-in model with an offset window;
    // then once more after a run-time orientation change
    {
        let mut ojobs: Vec<Cfg> = Vec::new();
        for k in 0..128u32 {
            let (o, refresh, bgr, invert) = ((k & 7) as u8, ((k >> 3) & 3) as u8, k & 32 != 0, k & 64 != 0);
            let mut c = Cfg::tiny(4, 3, false, Transport::RecSerial, (3, 2, 1, 1), o);
            c.refresh = refresh;
            c.bgr = bgr;
            c.invert = invert;
            ojobs.push(c);
            for (i, info) in BUILTINS.iter().enumerate() {
                let tr = if info.supports[0] { Transport::RecSerial } else { Transport::RecPar8 };
                ojobs.push(Cfg { model: ModelId::Builtin(i as u8), tr, win: Some((5, 4, 2, 3)), orient: o, bgr, invert, refresh, rst: false, flags: 0 });
            }
        }
        let a = ojobs
            .par_iter()
            .fold(Acc::new, |mut acc, cfg| {
                let mut states = HashSet::new();
                let (lw, lh) = cfg.geo().lsize();
                let mut hist = boundary_program(lw, lh, true);
                let o2 = (cfg.orient + 3) % 8;
                hist.push(Op::SetOrientation(o2));
                let g2 = crate::spec::Geo { orient: o2, ..cfg.geo() };
                let (lw2, lh2) = g2.lsize();
                hist.extend(boundary_program(lw2, lh2, true));
                check_one(ctx, &mut acc, cfg, &hist, &mut states);
                acc.count("option_combinations", 1);
                acc.states += states.len() as u64;
                acc
            })
            .reduce(Acc::new, Acc::merge);
        acc = acc.merge(a);
    }

    // ---- leg C: built-in models at real size ------------------------------------------------------
    let mut bjobs: Vec<Cfg> = Vec::new();
    for (i, info) in BUILTINS.iter().enumerate() {
        let (fw, fh) = info.fb;
        let mut wins: Vec<Option<(u16, u16, u16, u16)>> = vec![None, Some((fw - 3, fh - 5, 3, 5)), Some((fw / 2, fh / 3, 1, 2))];
        if fw >= 135 + 52 && fh >= 240 + 40 {
            wins.push(Some((135, 240, 52, 40)));
        }
        if fw >= 130 && fh >= 131 {
            wins.push(Some((128, 128, 2, 1)));
            wins.push(Some((128, 128, 2, 3)));
        }
        for win in wins {
            for o in 0..8u8 {
                for (k, tr) in [Transport::RecSerial, Transport::RecPar8, Transport::RecPar16, Transport::Spi { len: 64 }, Transport::Par8, Transport::Par16]
                    .into_iter()
                    .enumerate()
                {
                    if !info.supports[tr.kind_idx()] || (info.c666 && tr.bus16()) {
                        continue;
                    }
                    // real transports: in quick only for two orientations per model
                    if quick && tr.is_real() && !(o == 1 || o == 6) {
                        continue;
                    }
                    let _ = k;
                    bjobs.push(Cfg {
                        model: ModelId::Builtin(i as u8),
                        tr,
                        win,
                        orient: o,
                        bgr: o % 2 == 1,
                        invert: false,
                        refresh: o % 4,
                        rst: false,
                        flags: 0,
                    });
                }
            }
        }
    }
    let nb = bjobs.len();
    let accb = bjobs
        .par_iter()
        .fold(
            Acc::new,
            |mut acc, cfg| {
                let mut states = HashSet::new();
                let (lw, lh) = cfg.geo().lsize();
                let hist = boundary_program(lw, lh, !cfg.tr.is_real());
                check_one(ctx, &mut acc, cfg, &hist, &mut states);
                acc.states += states.len() as u64;
                acc
            },
        )
        .reduce(Acc::new, Acc::merge);
    acc = acc.merge(accb);
    acc.count("configurations_builtin", nb as u64);

    // ---- leg D: extreme framebuffers (sparse controller memory) ----------------------------------
    let mut gjobs = Vec::new();
    for (fw, fh) in [(65535u16, 65535u16), (65535, 1), (1, 65535)] {
        let wins: Vec<(u16, u16, u16, u16)> = if fw > 1 && fh > 1 {
            vec![(fw, fh, 0, 0), (fw - 7, fh - 9, 7, 9), (3, 2, fw - 3, fh - 2), (300, 200, 65000, 100)]
        } else if fw > 1 {
            vec![(fw, 1, 0, 0), (fw - 7, 1, 7, 0), (3, 1, fw - 3, 0)]
        } else {
            vec![(1, fh, 0, 0), (1, fh - 9, 0, 9), (1, 2, 0, fh - 2)]
        };
        for win in wins {
            for o in 0..8u8 {
                for tr in [Transport::RecSerial, Transport::RecPar16] {
                    gjobs.push(Cfg::tiny(fw, fh, false, tr, win, o));
                }
            }
        }
    }
    let ng = gjobs.len();
    let accg = gjobs
        .par_iter()
        .fold(
            Acc::new,
            |mut acc, cfg| {
                let mut states = HashSet::new();
                let (lw, lh) = cfg.geo().lsize();
                let hist = boundary_program(lw, lh, true);
                check_one(ctx, &mut acc, cfg, &hist, &mut states);
                acc.states += states.len() as u64;
                acc
            },
        )
        .reduce(Acc::new, Acc::merge);
    acc = acc.merge(accg);
    acc.count("configurations_extreme", ng as u64);

    let bounds = json!({
        "shapes": shapes, "windows": "all accepted by init", "orientations": 8,
        "transports": "RecSerial, RecPar16, Spi(N), Spi(N+1), Spi(2N+1), [Spi(64)], Par8, Par16 (Rgb666 on 8-bit only)",
        "alphabet": "set_pixel@every position; set_pixels/fill_solid/fill_contiguous/draw_iter-raster on every sub-rectangle; clear; draw_iter singles and ordered pairs",
        "builtin_configs": nb, "extreme_configs": ng, "small_configs": n_cfg,
        "depth2": !quick, "depth3": "all programs of length 3 on 2x2 / 2x2@(1,0) of 3x2 / 2x1@(0,1) of 2x3 displays",
    });
    let mut part = Part::new(ctx, acc, bounds, true, t0.elapsed().as_secs_f64());
    part.require("chained_programs", 1);
    part.require("depth3_programs", 1000);
    part.require("configurations_builtin", 14);
    part.require("configurations_extreme", 1);
    part.require("option_combinations", 128);
    part
}

/// boundary-value drawing program for large displays: corners, edges, full row/column, 2x2 at
/// each corner, interior rectangle, and (on recording interfaces) clear.
pub fn boundary_program(lw: u32, lh: u32, with_clear: bool) -> Vec<Op> {
    let mut h = Vec::new();
    let (mx, my) = ((lw - 1) as i32, (lh - 1) as i32);
    if with_clear {
        h.push(Op::Clear { c: 0x0011 });
    }
    let mut c = 0x0100;
    let mut col = || {
        c += 1;
        c
    };
    let xs: Vec<i32> = {
        let mut v = vec![0, 1.min(mx), mx / 2, (mx - 1).max(0), mx];
        v.dedup();
        v
    };
    let ys: Vec<i32> = {
        let mut v = vec![0, 1.min(my), my / 2, (my - 1).max(0), my];
        v.dedup();
        v
    };
    for &y in &ys {
        for &x in &xs {
            h.push(Op::SetPixel { x: x as u16, y: y as u16, c: col() });
        }
    }
    // corner 2x2 blocks (clipped to the display if it is only one wide/high)
    let bw = 2.min(lw);
    let bh = 2.min(lh);
    for (x, y) in [(0, 0), (mx + 1 - bw as i32, 0), (0, my + 1 - bh as i32), (mx + 1 - bw as i32, my + 1 - bh as i32)] {
        let r = Rect { x, y, w: bw, h: bh };
        h.push(Op::FillSolid { r, c: col() });
        h.push(Op::FillContiguous { r, colors: Colors::Coded { base: col() * 16, len: Some((bw * bh) as u64) } });
        h.push(Op::DrawIter(Pixels::Syms { syms: vec![Sym::Block { x, y, w: bw, h: bh }], base: col() * 16 }));
        h.push(Op::SetPixels {
            sx: x as u16,
            sy: y as u16,
            ex: (x + bw as i32 - 1) as u16,
            ey: (y + bh as i32 - 1) as u16,
            colors: Colors::Coded { base: col() * 16, len: Some((bw * bh) as u64) },
        });
    }
    // full first/last row and column as fills (symbolic on large displays)
    h.push(Op::FillSolid { r: Rect { x: 0, y: 0, w: lw, h: 1 }, c: col() });
    h.push(Op::FillSolid { r: Rect { x: 0, y: my, w: lw, h: 1 }, c: col() });
    h.push(Op::FillSolid { r: Rect { x: 0, y: 0, w: 1, h: lh }, c: col() });
    h.push(Op::FillSolid { r: Rect { x: mx, y: 0, w: 1, h: lh }, c: col() });
    // a short run at the far edge through draw_iter and a 3-pixel fill_contiguous ending at the corner
    let rl = 3.min(lw);
    h.push(Op::DrawIter(Pixels::Syms { syms: vec![Sym::Run { x: mx + 1 - rl as i32, y: my, len: rl, rev: false }], base: col() * 16 }));
    h.push(Op::FillContiguous { r: Rect { x: mx + 1 - rl as i32, y: my, w: rl, h: 1 }, colors: Colors::Coded { base: col() * 16, len: Some(rl as u64) } });
    h
}
