//! C04 - fill_contiguous keeps colour k on point k under any clipping
use std::time::Instant;

use rayon::prelude::*;
use serde_json::json;

use super::c02::{clipped_area, lattice, size_lattice};
use super::common::*;
use super::Entry;
use crate::dut::*;
use crate::report::*;
use crate::rig::*;

pub const ENTRY: Entry = Entry {
    id: "C04",
    variants: &["batch", "nobatch", "ptr16"],
    level: "model_checking",
    rule: "odometer over small displays (all windows of the listed framebuffer shapes, orientations 0 and 1) x every rectangle with \
           top_left in [-3, w+2]x[-3, h+2] and size in [0, w+4]x[0, h+4] (inside, overlapping any subset of edges, enclosing, \
           disjoint, zero-sized) x stream length in {0, 1, first-visible-index, first-visible-index+1, area-1, area, area+1, endless}; \
           plus valid i32-extreme rectangles from the C02 lattice; colour k encodes k. Oracle: controller memory == canvas in which \
           point k of the *requested* rectangle has colour k iff visible and k < length; Ok; no panic; the number of colours pulled is \
           bounded by the rectangle's point count (+ peek). The ptr16 variant compiles the real 16-bit-pointer take/skip helper bodies \
           on this host. Plus colour sources whose size hint claims exactly the rectangle's point count while they yield more / fewer colours, and every built-in model at real size (8 initial orientations x 3 run-time orientation changes) with rectangles around the far corner. Non-trivial = the rectangle is clipped by at least one edge and something is visible.",
    assumptions: &[
        "reference controller + canvas specification",
        "ptr16: the helper bodies are pointer-width independent Rust; code generation for a real 16-bit target is not covered",
    ],
    run,
};

pub fn stream_lengths(r: &Rect, lw: u32, lh: u32) -> Vec<Option<u64>> {
    let area = r.w as u64 * r.h as u64;
    let mut v: Vec<Option<u64>> = vec![Some(0), Some(1), Some(area), Some(area + 1), None];
    if area >= 1 {
        v.push(Some(area - 1));
    }
    // index of the first visible point
    if clipped_area(r, lw, lh) > 0 {
        let vx = (r.x as i64).max(0) - r.x as i64;
        let vy = (r.y as i64).max(0) - r.y as i64;
        let first = vy as u64 * r.w as u64 + vx as u64;
        v.push(Some(first));
        v.push(Some(first + 1));
    }
    v.sort();
    v.dedup();
    v
}

pub fn small_cfgs(quick: bool) -> Vec<Cfg> {
    let shapes: Vec<(u16, u16)> = if quick { vec![(1, 1), (1, 3), (2, 2), (3, 2), (2, 3), (4, 3), (3, 4)] } else { vec![(1, 1), (1, 3), (2, 2), (3, 2), (2, 3), (3, 3), (4, 3), (3, 4), (5, 4), (4, 5), (5, 5), (8, 6)] };
    let mut v = Vec::new();
    for (fw, fh) in shapes {
        for win in window_configs(fw, fh) {
            // a window's position does not change the logical size; keep every size, two positions each
            let (w, h, ox, oy) = win;
            let far = ox == fw - w && oy == fh - h;
            let near = ox == 0 && oy == 0;
            if !(far || near) {
                continue;
            }
            for o in [0u8, 1] {
                v.push(Cfg::tiny(fw, fh, false, Transport::RecSerial, win, o));
            }
        }
    }
    v.push(Cfg::tiny(4, 3, true, Transport::RecSerial, (3, 2, 1, 1), 6));
    v.push(Cfg::tiny(4, 3, false, Transport::RecPar16, (3, 2, 1, 0), 3));
    v.push(Cfg::tiny(4, 3, false, Transport::Spi { len: 5 }, (4, 3, 0, 0), 2));
    v.push(Cfg::tiny(4, 3, false, Transport::Par8, (4, 3, 0, 0), 7));
    v
}

pub fn for_each_rect(cfg: &Cfg, extremes: bool, f: &mut dyn FnMut(Rect)) {
    let (lw, lh) = cfg.geo().lsize();
    for y in -3..=(lh as i32 + 2) {
        for x in -3..=(lw as i32 + 2) {
            for h in 0..=(lh + 4) {
                for w in 0..=(lw + 4) {
                    f(Rect { x, y, w, h });
                }
            }
        }
    }
    if extremes {
        let geo = cfg.geo();
        let (ffw, ffh) = if geo.rot() % 2 == 0 { (geo.fw as u32, geo.fh as u32) } else { (geo.fh as u32, geo.fw as u32) };
        for &y in &lattice(lh, ffh, false) {
            for &x in &lattice(lw, ffw, false) {
                for &h in &size_lattice(lh) {
                    for &w in &size_lattice(lw) {
                        let r = Rect { x, y, w, h };
                        if r.valid() {
                            f(r);
                        }
                    }
                }
            }
        }
    }
}

pub fn check_fill(ctx: &Ctx, acc: &mut Acc, cfg: &Cfg, r: Rect, len: Option<u64>) {
    let (lw, lh) = cfg.geo().lsize();
    acc.evaluations += 1;
    acc.transitions += 1;
    acc.traces += 1;
    let vis = clipped_area(&r, lw, lh);
    let area = r.w as u64 * r.h as u64;
    if vis > 0 && vis < area {
        acc.nontrivial += 1;
    }
    let op = Op::FillContiguous { r, colors: Colors::Coded { base: 0x0300, len } };
    let hist = std::slice::from_ref(&op);
    reset_pulls();
    match check_history(cfg, hist, &Checks::ALL) {
        Ok(run) => {
            let p = pulls();
            acc.count("colours_pulled", p);
            let mut h = crate::util::Fnv::new();
            h.u64(run.rig.ctl.mem.digest());
            acc.outcome(h.finish());
            if vis == 0 {
                acc.count("nothing_visible", 1);
            } else if vis == area {
                acc.count("fully_inside", 1);
            } else {
                acc.count("clipped_visible", 1);
            }
        }
        Err((f, _)) => acc.violation(violation(ctx, cfg, hist, "all", &f)),
    }
}

fn run(ctx: &Ctx) -> Part {
    let t0 = Instant::now();
    let quick = ctx.quick();
    let cfgs = small_cfgs(quick);
    let acc = cfgs
        .par_iter()
        .fold(Acc::new, |mut acc, cfg| {
            let (lw, lh) = cfg.geo().lsize();
            let mut n = 0u64;
            for_each_rect(cfg, true, &mut |r| {
                for len in stream_lengths(&r, lw, lh) {
                    if clipped_area(&r, lw, lh) > 1 << 17 {
                        continue;
                    }
                    // the 16-bit helper bodies skip by stepping; keep their work bounded
                    if ctx.ptr16 && (r.w as u64 * r.h as u64) > 1 << 20 {
                        acc.count("skipped_large_ptr16", 1);
                        continue;
                    }
                    check_fill(ctx, &mut acc, cfg, r, len);
                    // every seventh case also after a run-time orientation change that keeps the logical size
                    if n % 7 == 3 {
                        let o2 = if n % 2 == 0 { cfg.orient ^ 4 } else { (cfg.orient & 4) | ((cfg.orient + 2) & 3) };
                        // fill, change the orientation, fill the same rectangle again (window / offset caches)
                        let hist = [
                            Op::FillContiguous { r, colors: Colors::Coded { base: 0x0500, len: None } },
                            Op::SetOrientation(o2),
                            Op::FillContiguous { r, colors: Colors::Coded { base: 0x0300, len } },
                        ];
                        acc.evaluations += 1;
                        acc.transitions += 3;
                        acc.traces += 1;
                        if let Err((f, _)) = check_history(cfg, &hist, &Checks::ALL) {
                            acc.violation(violation(ctx, cfg, &hist, "all", &f));
                        }
                        acc.count("after_orientation_change", 1);
                    }
                    n += 1;
                    if n == 5000 && acc.samples.len() < 2 {
                        acc.sample(json!({"cfg": cfg, "history": [Op::FillContiguous { r, colors: Colors::Coded { base: 0x0300, len } }]}));
                    }
                }
            });
            acc.states += 1;
            acc.count("configurations", 1);
            acc
        })
        .reduce(Acc::new, Acc::merge);
    // colour sources whose size hint says "exactly the rectangle" although they yield more / fewer colours (the hint
    // is advisory), and every built-in model at real size after a run-time orientation change (state a model's own
    // init leaves behind): rectangles around the far corner of the logical screen
    let mut acc = acc;
    {
        let hcfgs: Vec<Cfg> = cfgs.iter().filter(|c| c.fb().0 <= 8).cloned().collect();
        let a = hcfgs
            .par_iter()
            .fold(Acc::new, |mut acc, cfg| {
                for_each_rect(cfg, true, &mut |r| {
                    let area = r.w as u64 * r.h as u64;
                    if area == 0 || area > 64 {
                        return;
                    }
                    for len in [area + 3, area.saturating_sub(1)] {
                        let hist = [Op::FillContiguous { r, colors: Colors::Hinted { base: 0x0700, len, hint: area } }];
                        acc.evaluations += 1;
                        acc.nontrivial += 1;
                        acc.transitions += 1;
                        acc.traces += 1;
                        acc.count("hinted_sources", 1);
                        if let Err((f, _)) = check_history(cfg, &hist, &Checks::ALL) {
                            acc.violation(violation(ctx, cfg, &hist, "all", &f));
                        }
                    }
                });
                acc
            })
            .reduce(Acc::new, Acc::merge);
        acc = acc.merge(a);
        let mut bjobs: Vec<(Cfg, u8)> = Vec::new();
        for (i, info) in BUILTINS.iter().enumerate() {
            let tr = if info.supports[0] { Transport::RecSerial } else { Transport::RecPar8 };
            for o in 0..8u8 {
                for o2 in [(o + 1) % 8, o ^ 4, (o + 6) % 8] {
                    bjobs.push((Cfg { model: ModelId::Builtin(i as u8), tr, win: None, orient: o, bgr: false, invert: false, refresh: 0, rst: false, flags: 0 }, o2));
                }
            }
        }
        let b = bjobs
            .par_iter()
            .fold(Acc::new, |mut acc, (cfg, o2)| {
                let g2 = crate::spec::Geo { orient: *o2, ..cfg.geo() };
                let (lw, lh) = g2.lsize();
                let (mx, my) = (lw as i32, lh as i32);
                let mut hist = vec![Op::SetOrientation(*o2)];
                for r in [Rect { x: mx - 3, y: my - 2, w: 6, h: 4 }, Rect { x: -2, y: my - 1, w: 5, h: 3 }, Rect { x: mx - 2, y: -1, w: 4, h: 3 }, Rect { x: mx / 2, y: my - 1, w: 3, h: 1 }] {
                    hist.push(Op::FillContiguous { r, colors: Colors::Coded { base: 0x0900 + r.w, len: None } });
                }
                acc.evaluations += 1;
                acc.nontrivial += 1;
                acc.transitions += hist.len() as u64;
                acc.traces += 1;
                acc.count("builtin_after_orientation_change", 1);
                if let Err((f, _)) = check_history(cfg, &hist, &Checks::ALL) {
                    acc.violation(violation(ctx, cfg, &hist, "all", &f));
                }
                acc
            })
            .reduce(Acc::new, Acc::merge);
        acc = acc.merge(b);
    }
    let bounds = json!({
        "configurations": cfgs.len(),
        "rect_top_left": "[-3, w+2] x [-3, h+2]", "rect_size": "[0, w+4] x [0, h+4]", "plus": "valid rectangles from the C02 i32 lattice",
        "stream_lengths": "0, 1, first-visible, first-visible+1, area-1, area, area+1, endless",
        "helpers": if ctx.ptr16 { "16-bit-pointer take_u32/nth_u32 bodies (cfg flipped in a scratch copy)" } else { "host take_u32/nth_u32" },
    });
    let mut part = Part::new(ctx, acc, bounds, true, t0.elapsed().as_secs_f64());
    part.require("clipped_visible", 1000);
    part.require("fully_inside", 100);
    part.require("nothing_visible", 100);
    part.require("hinted_sources", 100);
    part.require("builtin_after_orientation_change", 14);
    part
}
