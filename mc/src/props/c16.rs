//! C16 - vertical scroll set-up always spans the framebuffer height and never panics
use std::time::Instant;

use rayon::prelude::*;
use serde_json::json;

use super::Entry;
use crate::dut::*;
use crate::env::Ev;
use crate::report::*;
use crate::rig::*;

pub const ENTRY: Entry = Entry {
    id: "C16",
    variants: &["batch", "wrap"],
    level: "model_checking",
    rule: "real Display::set_vertical_scroll_region / set_vertical_scroll_offset through a recording interface, for every built-in \
           framebuffer height (160, 162, 240, 320, 480, 536) and the extreme heights 1 and 65535: quick = (top, bottom) over a \
           boundary lattice^2 (0,1,2,H-1,H,H+1, 65535-H.., 32767/32768, 65534, 65535 and complements) x 8 orientations x 4 refresh orders x 2 colour orders, and on the real SPI (staging buffers of 2..7 bytes) and \
           parallel transports decoded at pin level; thorough = all 2^32 (top, bottom) pairs per height; all 65536 scroll offsets, and a lattice of offsets after every fitting region definition (state carried from the region call). Arithmetic oracle in u64 on the decoded VSCRDEF: exactly one \
           0x33 with six parameters, tfa+vsa+bfa == H, tfa == top and bfa == bottom whenever top+bottom <= H, no panic; 0x37 carries the \
           offset big-endian. Run with overflow checks on (wrap = panic) and off (wrap = wrong value). Non-trivial = top+bottom > H or \
           a u16 carry is involved.",
    assumptions: &["heights of the built-in models are taken from the models themselves (FRAMEBUFFER_SIZE)"],
    run,
};

pub fn height_cfgs() -> Vec<Cfg> {
    let mut v = Vec::new();
    // one built-in model per distinct framebuffer height
    let mut seen = std::collections::BTreeSet::new();
    for (i, b) in BUILTINS.iter().enumerate() {
        if seen.insert(b.fb.1) {
            let tr = if b.supports[0] { Transport::RecSerial } else { Transport::RecPar8 };
            v.push(Cfg { model: ModelId::Builtin(i as u8), tr, win: Some((8, 8, 0, 0)), orient: 0, bgr: false, invert: false, refresh: 0, rst: false, flags: 0 });
        }
    }
    v.push(Cfg::tiny(65535, 1, false, Transport::RecSerial, (8, 1, 0, 0), 0));
    v.push(Cfg::tiny(1, 65535, false, Transport::RecSerial, (1, 8, 0, 0), 0));
    v
}

fn lattice(h: u16) -> Vec<u16> {
    let h = h as i64;
    let mut v: Vec<i64> = vec![0, 1, 2, h - 1, h, h + 1, h / 2, h / 2 + 1, 65535 - h, 65536 - h, 65537 - h, 32767, 32768, 65534, 65535, 65535 - h / 2, 65536 - h / 2, 255, 256];
    v.retain(|x| *x >= 0 && *x <= 65535);
    v.sort_unstable();
    v.dedup();
    v.into_iter().map(|x| x as u16).collect()
}

/// lean executor: one display, many calls; returns the parameters of the single command sent
struct Lean {
    rig: Rig,
}
impl Lean {
    fn new(cfg: &Cfg) -> Lean {
        let rig = Rig::new(cfg);
        assert!(rig.init.is_ok(), "init failed: {:?}", rig.init);
        Lean { rig }
    }
    /// run `op` and return (outcome, commands the controller model decoded as (op, params)) - any transport
    fn call(&mut self, op: &Op) -> (Outcome, Vec<(u8, Vec<u8>)>) {
        self.rig.reset_logs();
        self.rig.ctl.keep_cmds = true;
        let n0 = self.rig.ctl.cmds.len();
        let out = self.rig.apply(op);
        let cmds = self.rig.ctl.cmds[n0..].iter().map(|c| (c.op, c.params.clone())).collect();
        self.rig.ctl.viols.clear();
        (out, cmds)
    }
}

impl Lean {
    /// allocation-free fast path for the 2^32 sweeps: Some(true) = the call was Ok and sent exactly one
    /// well-formed VSCRDEF satisfying the arithmetic oracle; Some(false)/None = look closer with `call`
    #[inline]
    fn fast_region(&mut self, h: u16, top: u16, bottom: u16) -> bool {
        {
            let mut b = self.rig.bd.borrow_mut();
            b.evs.clear();
            b.bytes.clear();
        }
        let d = self.rig.dut.as_mut().unwrap();
        let ok = std::panic::catch_unwind(std::panic::AssertUnwindSafe(|| d.scroll_region(top, bottom).is_ok())).unwrap_or(false);
        if !ok {
            return false;
        }
        let b = self.rig.bd.borrow();
        if b.evs.len() != 1 || b.bytes.len() != 6 {
            return false;
        }
        if !matches!(b.evs[0], Ev::Cmd { op: 0x33, len: 6, ok: true, .. }) {
            return false;
        }
        let p = &b.bytes;
        let be = |i: usize| ((p[i] as u64) << 8) | p[i + 1] as u64;
        let (tfa, vsa, bfa) = (be(0), be(2), be(4));
        tfa + vsa + bfa == h as u64 && (top as u64 + bottom as u64 > h as u64 || (tfa == top as u64 && bfa == bottom as u64))
    }
}

fn check_region(h: u16, top: u16, bottom: u16, out: &Outcome, cmds: &[(u8, Vec<u8>)]) -> Option<(String, String)> {
    let class = if top as u32 + bottom as u32 > 65535 {
        "top+bottom>=65536"
    } else if top as u32 + bottom as u32 > h as u32 {
        "top+bottom>height"
    } else {
        "fits"
    };
    let mk = |k: &str, m: String| Some((format!("set_vertical_scroll_region/{class}/{k}"), format!("height {h}, top {top}, bottom {bottom}: {m}")));
    match out {
        Outcome::Ok => {}
        Outcome::Panic(m) => return mk("panic", m.clone()),
        o => return mk("outcome", format!("{o:?}")),
    }
    if cmds.len() != 1 || cmds[0].0 != 0x33 || cmds[0].1.len() != 6 {
        return mk("not-one-vscrdef", format!("bus traffic {cmds:02x?}"));
    }
    let p = &cmds[0].1;
    let be = |i: usize| ((p[i] as u64) << 8) | p[i + 1] as u64;
    let (tfa, vsa, bfa) = (be(0), be(2), be(4));
    if tfa + vsa + bfa != h as u64 {
        return mk("areas-do-not-add-up", format!("tfa {tfa} + vsa {vsa} + bfa {bfa} != {h}"));
    }
    if top as u64 + bottom as u64 <= h as u64 && (tfa != top as u64 || bfa != bottom as u64) {
        return mk("not-passed-through", format!("tfa {tfa}, bfa {bfa}"));
    }
    None
}

fn one_slow(ctx: &Ctx, acc: &mut Acc, lean: &mut Lean, cfg: &Cfg, h: u16, top: u16, bottom: u16) {
    let op = Op::ScrollRegion(top, bottom);
    let (out, cmds) = lean.call(&op);
    acc.evaluations += 1;
    if top as u32 + bottom as u32 > h as u32 {
        acc.nontrivial += 1;
    }
    if let Some((sig, msg)) = check_region(h, top, bottom, &out, &cmds) {
        acc.violation(Violation { prop: ctx.prop.clone(), sig, msg, case: json!({"variant": ctx.variant, "cfg": cfg, "faults": [], "history": [op], "checks": "c16"}) });
        // a panicking call may leave the display in an unknown state: rebuild
        if !out.is_ok() {
            *lean = Lean::new(cfg);
        }
    } else {
        let mut hsh = crate::util::Fnv::new();
        hsh.bytes(&cmds[0].1);
        acc.outcome(hsh.finish());
    }
}

fn run(ctx: &Ctx) -> Part {
    let t0 = Instant::now();
    let quick = ctx.quick();
    let cfgs = height_cfgs();
    let mut acc = Acc::new();
    let mut heights = Vec::new();
    for base in &cfgs {
        let h = base.fb().1;
        heights.push(h);
        let orients: Vec<u8> = (0..8).collect();
        // work items: (orientation, top range)
        let items: Vec<(u8, u32, u32)> = if quick {
            // code: bits 0..2 orientation, bits 3..4 refresh order, bit 5 BGR (lattice pairs on each)
            (0..64u8).map(|o| (o, 0, 0)).collect()
        } else {
            // all 2^32 pairs on orientation 0 (split by top), lattice on the others
            let mut v: Vec<(u8, u32, u32)> = (0..256u32).map(|k| (0u8, k * 256, k * 256 + 256)).collect();
            v.extend((1..64u8).map(|o| (o, 0, 0)));
            let _ = &orients;
            v
        };
        let a = items
            .par_iter()
            .fold(Acc::new, |mut acc, &(o, lo, hi)| {
                let cfg = Cfg { orient: o & 7, refresh: (o >> 3) & 3, bgr: o & 32 != 0, ..*base };
                let mut lean = Lean::new(&cfg);
                // for half of the option codes something is drawn first (state carried from drawing calls)
                if o & 1 == 1 || (o >> 3) & 1 == 1 {
                    let _ = lean.rig.apply(&Op::Clear { c: 0x0821 });
                    let _ = lean.rig.apply(&Op::SetPixel { x: 0, y: 0, c: 0x1234 });
                    lean.rig.ctl.viols.clear();
                }
                let lat = lattice(h);
                let mut one = |acc: &mut Acc, top: u16, bottom: u16| one_slow(ctx, acc, &mut lean, &cfg, h, top, bottom);
                if lo == hi {
                    for &t in &lat {
                        for &b in &lat {
                            one(&mut acc, t, b);
                        }
                    }
                } else {
                    for t in lo..hi {
                        for b in 0..=65535u32 {
                            // fast path first; anything unusual is re-examined (and reported) by the slow path
                            if lean.fast_region(h, t as u16, b as u16) {
                                acc.evaluations += 1;
                                if t + b > h as u32 {
                                    acc.nontrivial += 1;
                                }
                            } else {
                                lean = Lean::new(&cfg);
                                one_slow(ctx, &mut acc, &mut lean, &cfg, h, t as u16, b as u16);
                            }
                        }
                    }
                }
                // scroll offsets: all 65536 on orientation 0 and 5
                if (o == 0 && lo == 0) || (o == 29 && lo == hi) {
                    for off in 0..=65535u32 {
                        let op = Op::ScrollOffset(off as u16);
                        let (out, cmds) = lean.call(&op);
                        acc.evaluations += 1;
                        let want = vec![(0x37u8, vec![(off >> 8) as u8, off as u8])];
                        if !out.is_ok() || cmds != want {
                            acc.violation(Violation {
                                prop: ctx.prop.clone(),
                                sig: "set_vertical_scroll_offset/parameter".into(),
                                msg: format!("offset {off}: outcome {out:?}, bus {cmds:02x?}, expected {want:02x?}"),
                                case: json!({"variant": ctx.variant, "cfg": cfg, "faults": [], "history": [op], "checks": "c16"}),
                            });
                        }
                    }
                    acc.count("scroll_offset_sweeps", 1);
                }
                // offsets after a region definition that fits (every fitting lattice pair x offset lattice): the offset
                // still goes out unchanged, whatever scroll area the display was told about before
                if lo == hi && (o & 7 == 0 || o == 29) {
                    let mut offs = lat.clone();
                    offs.extend_from_slice(&[3, 5, h.saturating_sub(3), h.saturating_sub(5)]);
                    for &t in &lat {
                        for &b in &lat {
                            if t as u32 + b as u32 > h as u32 {
                                continue;
                            }
                            let (out, _) = lean.call(&Op::ScrollRegion(t, b));
                            if !out.is_ok() {
                                continue;
                            }
                            for &off in &offs {
                                let op = Op::ScrollOffset(off);
                                let (out, cmds) = lean.call(&op);
                                acc.evaluations += 1;
                                acc.nontrivial += 1;
                                acc.count("offsets_after_region", 1);
                                let want = vec![(0x37u8, vec![(off >> 8) as u8, off as u8])];
                                if !out.is_ok() || cmds != want {
                                    acc.violation(Violation {
                                        prop: ctx.prop.clone(),
                                        sig: "set_vertical_scroll_offset/parameter-after-region".into(),
                                        msg: format!("height {h}: set_vertical_scroll_region({t}, {b}) then offset {off}: outcome {out:?}, bus {cmds:02x?}, expected {want:02x?}"),
                                        case: json!({"variant": ctx.variant, "cfg": cfg, "faults": [], "history": [Op::ScrollRegion(t, b), op], "checks": "c16"}),
                                    });
                                }
                            }
                        }
                    }
                }
                acc.states += 1;
                acc
            })
            .reduce(Acc::new, Acc::merge);
        acc = acc.merge(a);
    }
    // real transports (SPI with tiny staging buffers, parallel buses): the scroll commands decoded at
    // pin / SPI level by the controller model
    let mut tjobs = Vec::new();
    for tr in [Transport::Spi { len: 2 }, Transport::Spi { len: 3 }, Transport::Spi { len: 4 }, Transport::Spi { len: 5 }, Transport::Spi { len: 7 }, Transport::Par8, Transport::Par16] {
        for o in [0u8, 6] {
            tjobs.push(Cfg { orient: o, ..Cfg::tiny(2, 160, false, tr, (2, 8, 0, 0), 0) });
        }
    }
    let a = tjobs
        .par_iter()
        .fold(Acc::new, |mut acc, cfg| {
            let h = cfg.fb().1;
            let mut rig = Rig::new(cfg);
            rig.ctl.keep_cmds = true;
            let lat = lattice(h);
            for &t in &lat {
                for &b in &lat {
                    let n0 = rig.ctl.cmds.len();
                    let op = Op::ScrollRegion(t, b);
                    let out = rig.apply(&op);
                    acc.evaluations += 1;
                    let cmds: Vec<(u8, Vec<u8>)> = rig.ctl.cmds[n0..].iter().map(|c| (c.op, c.params.clone())).collect();
                    if let Some((sig, msg)) = check_region(h, t, b, &out, &cmds) {
                        acc.violation(Violation { prop: ctx.prop.clone(), sig: format!("{sig}/real-transport"), msg: format!("{:?}: {msg}", cfg.tr), case: json!({"variant": ctx.variant, "cfg": cfg, "faults": [], "history": [op], "checks": "c16"}) });
                    }
                    rig.ctl.viols.clear();
                }
                let off = t;
                let n0 = rig.ctl.cmds.len();
                let out = rig.apply(&Op::ScrollOffset(off));
                let cmds: Vec<(u8, Vec<u8>)> = rig.ctl.cmds[n0..].iter().map(|c| (c.op, c.params.clone())).collect();
                if !out.is_ok() || cmds != vec![(0x37u8, vec![(off >> 8) as u8, off as u8])] {
                    acc.violation(Violation { prop: ctx.prop.clone(), sig: "set_vertical_scroll_offset/parameter/real-transport".into(), msg: format!("{:?}: offset {off}: {out:?} {cmds:02x?}", cfg.tr), case: json!({"variant": ctx.variant, "cfg": cfg, "faults": [], "history": [Op::ScrollOffset(off)], "checks": "c16"}) });
                }
                rig.reset_logs();
            }
            acc.count("real_transport_configs", 1);
            acc
        })
        .reduce(Acc::new, Acc::merge);
    acc = acc.merge(a);
    acc.transitions = acc.evaluations;
    acc.traces = acc.evaluations;
    acc.sample(json!({"height": 320, "history": [{"ScrollRegion": [65535, 1]}]}));
    acc.sample(json!({"height": 162, "history": [{"ScrollRegion": [100, 62]}, {"ScrollOffset": 513}]}));
    let bounds = json!({"heights": heights, "pairs": if quick { "boundary lattice^2 x 8 orientations" } else { "all 2^32 (top,bottom) per height + lattice on 7 orientations" }, "offsets": "all 65536"});
    let mut part = Part::new(ctx, acc, bounds, true, t0.elapsed().as_secs_f64());
    part.require("scroll_offset_sweeps", 8);
    part
}

/// replay one recorded scroll call (used by `--replay`)
pub fn replay(case: &serde_json::Value) -> i32 {
    let cfg: Cfg = serde_json::from_value(case["cfg"].clone()).unwrap();
    let hist: Vec<Op> = serde_json::from_value(case["history"].clone()).unwrap();
    let h = cfg.fb().1;
    let mut lean = Lean::new(&cfg);
    let mut rc = 0;
    for op in &hist {
        let (out, cmds) = lean.call(op);
        println!("{op:?} -> {out:?}, bus {cmds:02x?}");
        if let Op::ScrollRegion(t, b) = op {
            if let Some((sig, msg)) = check_region(h, *t, *b, &out, &cmds) {
                println!("REPLAY: {sig} -- {msg}");
                rc = 1;
            }
        }
        if let Op::ScrollOffset(off) = op {
            let want = vec![(0x37u8, vec![(*off >> 8) as u8, *off as u8])];
            if !out.is_ok() || cmds != want {
                println!("REPLAY: set_vertical_scroll_offset/parameter -- expected {want:02x?}");
                rc = 1;
            }
        }
    }
    if rc == 0 {
        println!("REPLAY: passes");
    }
    rc
}
