//! C08 - every pixel burst is framed by a well-formed window that it does not overrun
use std::time::Instant;

use rayon::prelude::*;
use serde_json::json;

use super::common::*;
use super::Entry;
use super::{c01, c02, c03, c04};
use crate::dut::*;
use crate::report::*;
use crate::rig::*;

pub const ENTRY: Entry = Entry {
    id: "C08",
    variants: &["batch", "nobatch", "ptr16"],
    level: "model_checking",
    rule: "safety automaton over the decoded command/parameter/pixel trace of every drawing call: nothing but groups CASET(4 bytes, \
           start<=end, end inside the extent under the current MV) RASET(same) RAMWR pixels(whole pixels, <= window area for DrawTarget \
           calls, the controller's write pointer never wraps). Enumerated: the union of the C01 (in-bounds, every entry point, all \
           transports incl. byte-level SPI and strobe-level parallel decoding), C02 (out-of-bounds lattice), C03 (capacity-crossing \
           symbol words) and C04 (clipped fill_contiguous) alphabets, plus chained programs with orientation changes on one display, and the drawing alphabet after a set_orientation whose k-th low-level operation failed (every k). \
           Non-trivial = the call emitted at least one burst.",
    assumptions: &[
        "reference controller model decides extents under MV and pointer wrap",
        "set_pixel(s) is only called with in-range arguments (its documentation declares others undefined)",
    ],
    run,
};

fn check(ctx: &Ctx, acc: &mut Acc, cfg: &Cfg, hist: &[Op]) {
    acc.evaluations += 1;
    acc.transitions += hist.len() as u64;
    acc.traces += 1;
    match check_history(cfg, hist, &Checks::FRAMING) {
        Ok(run) => {
            if run.rig.ctl.n_ramwr > 0 {
                acc.nontrivial += 1;
            }
            let mut h = crate::util::Fnv::new();
            for c in &run.rig.ctl.cmds {
                h.byte(c.op);
                h.bytes(&c.params);
                h.u64(c.pixels);
            }
            acc.outcome(h.finish());
            acc.count("bursts", run.rig.ctl.n_ramwr);
        }
        Err((f, _)) => acc.violation(violation(ctx, cfg, hist, "framing", &f)),
    }
}

/// a set_orientation whose k-th low-level operation fails, then the drawing alphabet: every burst is still framed by a
/// window inside the framebuffer as the controller sees it (whatever the driver now believes about its orientation)
fn after_failed_orientation(cfg: &Cfg, o2: u8, k: u64) -> (bool, usize, Option<(String, String)>) {
    let mut rig = Rig::new(cfg);
    rig.ctl.keep_cmds = true;
    if !rig.init.is_ok() {
        return (false, 0, None);
    }
    let at = rig.ops() + k;
    let fired0 = rig.bd.borrow().failed_ops.len();
    rig.set_faults(&[crate::env::Fault { at, mode: crate::env::FaultMode::Unchanged }]);
    let _ = rig.apply(&Op::SetOrientation(o2));
    rig.set_faults(&[]);
    if rig.bd.borrow().failed_ops.len() == fired0 {
        return (false, 0, None);
    }
    rig.ctl.viols.clear();
    // the in-bounds alphabet of the orientation the display now reports (a failed call may or may not have taken effect;
    // set_pixel / set_pixels are only defined inside the reported size)
    let o = rig.dut.as_ref().unwrap().orientation();
    let (lw, lh) = crate::spec::Geo { orient: o, ..cfg.geo() }.lsize();
    let ops = c01::alphabet(lw, lh, false);
    for (i, op) in ops.iter().enumerate() {
        let cmd0 = rig.ctl.cmds.len();
        let out = rig.apply(op);
        let mk = |kind: &str, m: String| Some((format!("{}/after-failed-set_orientation/{kind}", op.name()), format!("set_orientation({o2}) failed at its low-level operation {k}, the display reports orientation {o}; then drawing operation #{i} {op:?}: {m}")));
        if let Outcome::Panic(m) | Outcome::NonTermination(m) = &out {
            return (true, ops.len(), mk("panic", m.clone()));
        }
        if let Some(v) = rig.ctl.viols.first() {
            return (true, ops.len(), mk(viol_kind(v), format!("controller protocol violation: {v:?}")));
        }
        if let Some(m) = framing_check(&rig, cmd0, !matches!(op, Op::SetPixels { .. })) {
            return (true, ops.len(), mk("framing", m));
        }
    }
    (true, ops.len(), None)
}

pub fn replay_fault(case: &serde_json::Value) -> i32 {
    let cfg: Cfg = serde_json::from_value(case["cfg"].clone()).unwrap();
    let (o2, k) = (case["o2"].as_u64().unwrap() as u8, case["k"].as_u64().unwrap());
    println!("{cfg:?}: set_orientation({o2}) with low-level operation {k} failing, then the in-bounds drawing alphabet of the orientation the display reports");
    match after_failed_orientation(&cfg, o2, k).2 {
        Some((s, m)) => {
            println!("REPLAY: {s} -- {m}");
            1
        }
        None => {
            println!("REPLAY: passes");
            0
        }
    }
}

fn run(ctx: &Ctx) -> Part {
    let t0 = Instant::now();
    let quick = ctx.quick();
    let mut acc = Acc::new();

    // ---- C01 alphabet on every transport ---------------------------------------------------------
    let mut jobs = Vec::new();
    let shapes: &[(u16, u16)] = if quick { &[(1, 1), (2, 2), (3, 2), (4, 3)] } else { &[(1, 1), (1, 3), (2, 2), (3, 2), (2, 3), (4, 3), (3, 4), (4, 4)] };
    for &(fw, fh) in shapes {
        for c666 in [false, true] {
            if c666 && (fw, fh) != (3, 2) {
                continue;
            }
            for tr in c01::transports(c666, false) {
                for win in window_configs(fw, fh) {
                    for o in 0..8u8 {
                        jobs.push(Cfg::tiny(fw, fh, c666, tr, win, o));
                    }
                }
            }
        }
    }
    let n1 = jobs.len();
    let a = jobs
        .par_iter()
        .fold(Acc::new, |mut acc, cfg| {
            let (lw, lh) = cfg.geo().lsize();
            let ops = c01::alphabet(lw, lh, lw * lh <= 6);
            for op in &ops {
                check(ctx, &mut acc, cfg, std::slice::from_ref(op));
            }
            // chained program with an orientation change in the middle
            let mut chain: Vec<Op> = c01::alphabet(lw, lh, false);
            let o2 = (cfg.orient + 3) % 8;
            chain.push(Op::SetOrientation(o2));
            let g2 = crate::spec::Geo { orient: o2, ..cfg.geo() };
            let (lw2, lh2) = g2.lsize();
            chain.extend(c01::alphabet(lw2, lh2, false));
            check(ctx, &mut acc, cfg, &chain);
            acc.count("chained_programs_with_orientation_change", 1);
            // failed orientation change (every fault position), then the drawing alphabet of the old geometry
            if cfg.fb() == (4, 3) || cfg.fb() == (3, 2) {
                for k in 0..64u64 {
                    let (fired, nops, f) = after_failed_orientation(cfg, o2, k);
                    if !fired {
                        break;
                    }
                    acc.evaluations += 1;
                    acc.nontrivial += 1;
                    acc.transitions += 1 + nops as u64;
                    acc.count("programs_after_failed_orientation_change", 1);
                    if let Some((sig, msg)) = f {
                        acc.violation(Violation { prop: ctx.prop.clone(), sig, msg, case: json!({"kind": "c08-fault", "variant": ctx.variant, "cfg": cfg, "o2": o2, "k": k}) });
                    }
                }
            }
            acc.states += 2;
            acc
        })
        .reduce(Acc::new, Acc::merge);
    acc = acc.merge(a);

    // ---- C02 alphabet (out-of-bounds), recording interface + two real transports -------------------
    let mut cfgs2 = c02::configs(true);
    cfgs2.push(Cfg::tiny(8, 6, false, Transport::Par8, (4, 3, 2, 1), 1));
    cfgs2.push(Cfg::tiny(8, 6, false, Transport::Spi { len: 5 }, (4, 3, 2, 1), 6));
    cfgs2.push(Cfg::tiny(8, 6, false, Transport::Par16, (3, 4, 5, 0), 3));
    let a = cfgs2
        .par_iter()
        .fold(Acc::new, |mut acc, cfg| {
            let (lw, lh) = cfg.geo().lsize();
            let mut n = 0;
            c02::for_each_op(cfg, true, &mut |op, _| {
                if let Op::FillContiguous { r, .. } = &op {
                    if c02::clipped_area(r, lw, lh) > 1 << 17 || (ctx.ptr16 && (r.w as u64 * r.h as u64) > 1 << 20) {
                        return;
                    }
                }
                check(ctx, &mut acc, cfg, std::slice::from_ref(&op));
                n += 1;
                if n == 777 {
                    acc.sample(json!({"cfg": cfg, "history": [op]}));
                }
            });
            acc.states += 1;
            acc
        })
        .reduce(Acc::new, Acc::merge);
    acc = acc.merge(a);

    // ---- C03 coarse symbol words (length <= 2) -----------------------------------------------------
    let (r, bk) = c03::measure_caps();
    for wide in [true, false] {
        for tr in [Transport::RecSerial, Transport::Par8] {
            let cfg = if wide { Cfg::tiny(130, 4, false, tr, (130, 4, 0, 0), 0) } else { Cfg::tiny(3, 104, false, tr, (3, 104, 0, 0), 0) };
            let syms = c03::coarse_symbols(r, bk, wide);
            let idx: Vec<usize> = (0..syms.len()).collect();
            let a = idx
                .par_iter()
                .fold(Acc::new, |mut acc, &i| {
                    check(ctx, &mut acc, &cfg, &[Op::DrawIter(Pixels::Syms { syms: vec![syms[i]], base: 7 })]);
                    if matches!(tr, Transport::RecSerial) {
                        for j in 0..syms.len() {
                            check(ctx, &mut acc, &cfg, &[Op::DrawIter(Pixels::Syms { syms: vec![syms[i], syms[j]], base: 7 })]);
                        }
                    }
                    acc
                })
                .reduce(Acc::new, Acc::merge);
            acc = acc.merge(a);
            acc.states += 1;
        }
    }

    // ---- C04 rectangles ----------------------------------------------------------------------------
    let cfgs4 = c04::small_cfgs(true);
    let a = cfgs4
        .par_iter()
        .fold(Acc::new, |mut acc, cfg| {
            let (lw, lh) = cfg.geo().lsize();
            c04::for_each_rect(cfg, false, &mut |r| {
                for len in [Some(0), Some(r.w as u64 * r.h as u64), None] {
                    let op = Op::FillContiguous { r, colors: Colors::Coded { base: 9, len } };
                    check(ctx, &mut acc, cfg, std::slice::from_ref(&op));
                }
                // a colour source whose size hint says "exactly the rectangle" although it yields more (and fewer)
                let area = r.w as u64 * r.h as u64;
                if area > 0 && area <= 64 {
                    for len in [area + 3, area.saturating_sub(1)] {
                        let op = Op::FillContiguous { r, colors: Colors::Hinted { base: 11, len, hint: area } };
                        check(ctx, &mut acc, cfg, std::slice::from_ref(&op));
                    }
                }
                let _ = (lw, lh);
                check(ctx, &mut acc, cfg, &[Op::FillSolid { r, c: 3 }]);
            });
            acc.states += 1;
            acc
        })
        .reduce(Acc::new, Acc::merge);
    acc = acc.merge(a);

    let bounds = json!({"c01_configs": n1, "c02_configs": cfgs2.len(), "c04_configs": cfgs4.len(), "row_capacity": r, "block_capacity": bk});
    let mut part = Part::new(ctx, acc, bounds, true, t0.elapsed().as_secs_f64());
    part.require("bursts", 1000);
    part.require("chained_programs_with_orientation_change", 1);
    part.require("programs_after_failed_orientation_change", 100);
    part
}
