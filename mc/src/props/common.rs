//! Shared oracles: step refinement of the real driver against the canvas specification.
#![allow(dead_code)]

use serde::{Deserialize, Serialize};
use serde_json::json;

use crate::ctl::{Viol, UNWRITTEN};
use crate::dut::*;
use crate::env::*;
use crate::report::{Ctx, Violation};
use crate::rig::*;
use crate::spec::{madctl_spec, Canvas};

/// A complete, replayable execution: configuration + fault plan + operation history.
#[derive(Clone, Debug, Serialize, Deserialize)]
pub struct Case {
    pub cfg: Cfg,
    #[serde(default)]
    pub faults: Vec<Fault>,
    pub history: Vec<Op>,
    /// which oracle set to apply on replay
    #[serde(default)]
    pub checks: String,
}

#[derive(Clone, Debug)]
pub struct Fail {
    pub sig: String,
    pub msg: String,
    /// index of the failing operation in the history
    pub at: usize,
}

#[derive(Clone, Copy, Debug)]
pub struct Checks {
    /// every call must return Ok (the bus never fails in these runs)
    pub outcome_ok: bool,
    /// controller memory == canvas after every operation
    pub mem_eq: bool,
    /// no protocol violation recorded by the controller (C08 monitor included)
    pub protocol: bool,
    /// drawing calls leave the private Display state untouched
    pub state_unchanged: bool,
    /// size()/bounding_box() agree with the specification
    pub size: bool,
    /// per-cell write sequences equal the stream's sequence for that cell (C03)
    pub cell_sequences: bool,
    /// framing automaton: (CASET RASET RAMWR PIXELS)* only, pixels <= window area (C08)
    pub framing: bool,
    /// a panic or a non-terminating call is a failure
    pub no_panic: bool,
}
impl Checks {
    pub const ALL: Checks = Checks {
        outcome_ok: true,
        mem_eq: true,
        protocol: true,
        state_unchanged: true,
        size: true,
        cell_sequences: false,
        // the framing automaton is C08's statement; the other properties only need what the
        // controller ends up with (a driver that legally skipped a redundant window set-up must not alarm them)
        framing: false,
        no_panic: true,
    };
    /// C08: only what the controller sees on the bus
    pub const FRAMING: Checks = Checks {
        outcome_ok: false,
        mem_eq: false,
        protocol: true,
        state_unchanged: false,
        size: false,
        cell_sequences: false,
        framing: true,
        no_panic: false,
    };
    pub fn by_name(n: &str) -> Checks {
        match n {
            "sequences" => Checks { cell_sequences: true, ..Checks::ALL },
            "framing" => Checks::FRAMING,
            _ => Checks::ALL,
        }
    }
}

pub fn viol_kind(v: &Viol) -> &'static str {
    match v {
        Viol::DataWithoutRamwr => "data-without-ramwr",
        Viol::Overrun { .. } => "window-overrun",
        Viol::PartialPixel { .. } => "partial-pixel",
        Viol::ParamCount { .. } => "param-count",
        Viol::WindowOrder { .. } => "window-start>end",
        Viol::WindowExtent { .. } => "window-beyond-framebuffer",
        Viol::PixelFormat { .. } => "pixel-format",
        Viol::DataBeforeCommand => "data-before-command",
        Viol::Other(_) => "other",
    }
}

/// coarse input class of a drawing operation relative to the display (used in signatures)
pub fn input_class(op: &Op, lw: u32, lh: u32) -> &'static str {
    let class_pt = |x: i64, y: i64| -> &'static str {
        if x < 0 || y < 0 {
            "negative"
        } else if x >= 65536 || y >= 65536 {
            ">=65536"
        } else if x >= lw as i64 || y >= lh as i64 {
            ">=size"
        } else {
            "in-bounds"
        }
    };
    let worst = |a: &'static str, b: &'static str| -> &'static str {
        let rank = |s: &str| match s {
            "in-bounds" => 0,
            ">=size" => 1,
            "negative" => 2,
            _ => 3,
        };
        if rank(b) > rank(a) { b } else { a }
    };
    match op {
        Op::DrawIter(px) => {
            let mut c = "in-bounds";
            let pts: Vec<(i32, i32, u32)> = match px {
                Pixels::List(v) => v.clone(),
                Pixels::Syms { .. } => px.expand(false),
            };
            for (x, y, _) in pts {
                c = worst(c, class_pt(x as i64, y as i64));
            }
            c
        }
        Op::FillSolid { r, .. } | Op::FillContiguous { r, .. } => {
            let inside = r.x >= 0
                && r.y >= 0
                && r.x as i64 + r.w as i64 <= lw as i64
                && r.y as i64 + r.h as i64 <= lh as i64;
            if inside { "in-bounds" } else { "clipped" }
        }
        _ => "in-bounds",
    }
}

/// Framing monitor over the commands of one drawing call (C08):
/// nothing but groups CASET, RASET, RAMWR(+pixels); pixels of a DrawTarget call <= window area.
pub fn framing_check(rig: &Rig, from_cmd: usize, limit_area: bool) -> Option<String> {
    let cmds = &rig.ctl.cmds[from_cmd..];
    let mut i = 0;
    while i < cmds.len() {
        if cmds.len() - i < 3 {
            return Some(format!("incomplete group at command #{i}: {:02x?}", cmds[i..].iter().map(|c| c.op).collect::<Vec<_>>()));
        }
        let (a, b, c) = (&cmds[i], &cmds[i + 1], &cmds[i + 2]);
        if a.op != 0x2A || b.op != 0x2B || c.op != 0x2C {
            return Some(format!(
                "expected 2A,2B,2C at command #{i}, got {:02x},{:02x},{:02x}",
                a.op, b.op, c.op
            ));
        }
        if a.params.len() != 4 || b.params.len() != 4 {
            return Some("address command without four parameter bytes".into());
        }
        let be = |p: &[u8], k: usize| ((p[k] as u32) << 8) | p[k + 1] as u32;
        let (sc, ec, sp, ep) = (be(&a.params, 0), be(&a.params, 2), be(&b.params, 0), be(&b.params, 2));
        if sc > ec || sp > ep {
            return Some(format!("start > end: columns {sc}..{ec}, pages {sp}..{ep}"));
        }
        let area = (ec - sc + 1) as u64 * (ep - sp + 1) as u64;
        if limit_area && c.pixels > area {
            return Some(format!("{} pixels into a window of {area}", c.pixels));
        }
        i += 3;
    }
    None
}

pub struct Run {
    pub rig: Rig,
    pub canvas: Canvas,
    pub outcomes: Vec<Outcome>,
    /// canonical implementation-state key after every operation (hooks: Display state, bus cache; pin levels)
    pub state_keys: Vec<u64>,
}

/// canonical key of the implementation state: private Display state (hook, `&self`) + pin levels
pub fn tstate_key(rig: &mut Rig) -> u64 {
    let mut h = crate::util::Fnv::new();
    let st = rig.dut.as_ref().unwrap().state();
    h.u32(st.orient as u32);
    h.u32(st.madctl as u32);
    h.u32(st.sleeping as u32);
    h.u32(st.w as u32 | (st.h as u32) << 16);
    h.u32(st.ox as u32 | (st.oy as u32) << 16);
    // NOTE: the bus cache is deliberately *not* read here: the only route to the interface of a live
    // Display is `unsafe dcs()`, a `&mut self` method that a changed driver may give side effects
    // (a seeded change that invalidated a window cache there was masked by exactly that peek).
    // Observation of a display under test goes through `&self` accessors and the board only.
    let b = rig.bd.borrow();
    for l in b.levels.iter() {
        h.byte(*l as u8);
    }
    h.finish()
}

/// Execute a history on a fresh rig, checking every step against the specification.
/// Does the driver under test send a solid fill as a pixel stream (one word per pixel through the interface) instead
/// of `send_repeated_pixel`?  Both satisfy every property; the difference matters to the harness only, because a
/// streamed fill of a 65535 x 65535 window cannot be simulated (8.6e9 words).  Probed once on a small display.
pub fn streams_solid_fills() -> bool {
    static P: std::sync::OnceLock<bool> = std::sync::OnceLock::new();
    *P.get_or_init(|| {
        let cfg = Cfg::tiny(4, 3, false, Transport::RecSerial, (4, 3, 0, 0), 0);
        let mut rig = Rig::new(&cfg);
        let ev0 = rig.bd.borrow().evs.len();
        let _ = rig.apply(&Op::Clear { c: 0x1234 });
        let b = rig.bd.borrow();
        !b.evs[ev0..].iter().any(|e| matches!(e, crate::env::Ev::Repeat { .. }))
    })
}

/// words a solid fill of this operation puts on the bus
fn solid_fill_words(cfg: &Cfg, geo: &crate::spec::Geo, op: &Op) -> u64 {
    let (lw, lh) = geo.lsize();
    let area = match op {
        Op::Clear { .. } => lw as u64 * lh as u64,
        Op::FillSolid { r, .. } => {
            let x0 = (r.x as i64).max(0);
            let y0 = (r.y as i64).max(0);
            let x1 = (r.x as i64 + r.w as i64).min(lw as i64);
            let y1 = (r.y as i64 + r.h as i64).min(lh as i64);
            if x1 > x0 && y1 > y0 {
                (x1 - x0) as u64 * (y1 - y0) as u64
            } else {
                0
            }
        }
        _ => 0,
    };
    area * if cfg.tr.bus16() { 1 } else if cfg.c666() { 3 } else { 2 }
}

pub fn check_history(cfg: &Cfg, hist: &[Op], ck: &Checks) -> Result<Run, (Fail, Option<Run>)> {
    // histories the harness cannot simulate on this driver are reported as inconclusive (report.rs counts them
    // and lists them as a cap), never as violations
    {
        let mut g = cfg.geo();
        for (i, op) in hist.iter().enumerate() {
            if let Op::SetOrientation(o) = op {
                g.orient = *o;
            }
            if solid_fill_words(cfg, &g, op) > DEFAULT_BUDGET / 2 && streams_solid_fills() {
                return Err((Fail { sig: "inconclusive/giant-solid-fill-streamed-by-this-driver".into(), msg: format!("{op:?} would put more than {} words through the interface one by one", DEFAULT_BUDGET / 2), at: i }, None));
            }
        }
    }
    let mut rig = Rig::new(cfg);
    rig.ctl.keep_cmds = true;
    if ck.cell_sequences {
        rig.ctl.mem.keep_log = true;
    }
    let geo = cfg.geo();
    let mut canvas = if ck.cell_sequences { Canvas::with_log(geo) } else { Canvas::new(geo) };
    if !rig.init.is_ok() {
        return Err((Fail { sig: "init/failed".into(), msg: format!("init: {:?}", rig.init), at: 0 }, None));
    }
    // init must not touch pixel memory or leave protocol violations behind
    if rig.ctl.mem.writes != 0 || !rig.ctl.viols.is_empty() {
        return Err((
            Fail { sig: "init/protocol".into(), msg: format!("init wrote memory or violated protocol: {:?}", rig.ctl.viols), at: 0 },
            None,
        ));
    }
    let c666 = cfg.c666();
    let mut outcomes = Vec::with_capacity(hist.len());
    let mut state_keys = Vec::with_capacity(hist.len() + 1);
    state_keys.push(tstate_key(&mut rig));
    for (i, op) in hist.iter().enumerate() {
        let before = rig.dut.as_ref().unwrap().state();
        let cmd0 = rig.ctl.cmds.len();
        let viol0 = rig.ctl.viols.len();
        let out = rig.apply(op);
        let (lw, lh) = canvas.geo.lsize();
        let class = input_class(op, lw, lh);
        let mk = |kind: &str, msg: String| Fail { sig: format!("{}/{}/{}", op.name(), class, kind), msg, at: i };
        let mut fail: Option<Fail> = None;
        match &out {
            Outcome::Ok => {}
            Outcome::Panic(m) => {
                if ck.no_panic {
                    fail = Some(mk("panic", format!("panicked: {m}")))
                }
            }
            Outcome::NonTermination(m) => {
                if ck.no_panic {
                    fail = Some(mk("non-termination", m.clone()))
                }
            }
            Outcome::Err(e) => {
                if ck.outcome_ok {
                    fail = Some(mk("spurious-error", format!("returned {e:?} although the bus never failed")))
                }
            }
        }
        outcomes.push(out);
        // specification step
        if let Op::SetOrientation(o) = op {
            canvas.geo.orient = *o;
        }
        spec_apply(&mut canvas, op, c666);
        let d = rig.dut.as_ref().unwrap();
        if fail.is_none() && ck.protocol && rig.ctl.viols.len() > viol0 {
            let v = &rig.ctl.viols[viol0];
            fail = Some(mk(viol_kind(v), format!("controller protocol violation: {v:?}")));
        }
        if fail.is_none() && ck.framing && op.is_drawing() {
            let limit = !matches!(op, Op::SetPixels { .. });
            if let Some(m) = framing_check(&rig, cmd0, limit) {
                fail = Some(mk("framing", m));
            }
        }
        if fail.is_none() && ck.mem_eq {
            if let Some((x, y, got, want)) = rig.ctl.mem.first_diff(&canvas.mem) {
                let kind = if !canvas.geo.in_window(x, y) { "write-outside-window" } else { "memory-mismatch" };
                let f = |v: u32| if v == UNWRITTEN { "untouched".to_string() } else { format!("{v:06x}") };
                fail = Some(mk(kind, format!("framebuffer cell ({x},{y}): controller has {}, specification {}", f(got), f(want))));
            }
        }
        if fail.is_none() && ck.state_unchanged && op.is_drawing() {
            let after = d.state();
            if after != before {
                fail = Some(mk("state-changed", format!("drawing changed the driver state: {before:?} -> {after:?}")));
            }
        }
        if fail.is_none() && ck.size {
            let (lw, lh) = canvas.geo.lsize();
            if d.size() != (lw, lh) || d.bbox() != (0, 0, lw, lh) {
                fail = Some(mk("size", format!("size()={:?} bounding_box()={:?}, specification {}x{}", d.size(), d.bbox(), lw, lh)));
            }
        }
        if fail.is_none() && ck.size {
            if let Op::SetOrientation(o) = op {
                let st = d.state();
                let want = madctl_spec(st.bgr, *o, st.refresh);
                if d.orientation() != *o || st.orient != *o {
                    fail = Some(mk("orientation-not-stored", format!("orientation() = {} after set_orientation({o})", d.orientation())));
                } else if rig.ctl.madctl != want || st.madctl != want {
                    fail = Some(mk("madctl", format!("MADCTL device {:02x} cached {:02x}, specification {want:02x}", rig.ctl.madctl, st.madctl)));
                }
            }
        }
        if let Some(f) = fail {
            return Err((f, Some(Run { rig, canvas, outcomes, state_keys })));
        }
        state_keys.push(tstate_key(&mut rig));
    }
    if ck.cell_sequences {
        // for every cell, the sequence of colours written equals the specification's sequence
        let mut a = rig.ctl.mem.log.clone();
        let mut b = canvas.mem.log.clone();
        // stable sort by cell keeps per-cell order
        a.sort_by_key(|e| (e.1, e.0));
        b.sort_by_key(|e| (e.1, e.0));
        if a != b {
            let at = hist.len().saturating_sub(1);
            let f = Fail {
                sig: format!("{}/in-bounds/cell-sequence", hist.last().map(|o| o.name()).unwrap_or("?")),
                msg: "per-cell write sequences differ from the stream's per-position sequences".into(),
                at,
            };
            return Err((f, Some(Run { rig, canvas, outcomes, state_keys })));
        }
    }
    Ok(Run { rig, canvas, outcomes, state_keys })
}

pub fn case_json(ctx: &Ctx, cfg: &Cfg, hist: &[Op], checks: &str) -> serde_json::Value {
    json!({
        "variant": ctx.variant,
        "cfg": cfg,
        "faults": [],
        "history": hist,
        "checks": checks,
    })
}

pub fn violation(ctx: &Ctx, cfg: &Cfg, hist: &[Op], checks: &str, f: &Fail) -> Violation {
    Violation {
        prop: ctx.prop.clone(),
        sig: format!("{}{}", f.sig, if ctx.batch { "" } else { "/nobatch" }),
        msg: format!("{} (operation #{} of the history)", f.msg, f.at),
        case: case_json(ctx, cfg, hist, checks),
    }
}

/// all (w,h,ox,oy) accepted by init for a framebuffer
pub fn window_configs(fw: u16, fh: u16) -> Vec<(u16, u16, u16, u16)> {
    let mut v = Vec::new();
    for w in 1..=fw {
        for ox in 0..=(fw - w) {
            for h in 1..=fh {
                for oy in 0..=(fh - h) {
                    v.push((w, h, ox, oy));
                }
            }
        }
    }
    v
}

/// human-readable dump of a run (decoded bus trace + memory diff), for replays
pub fn dump_run(run: &Run) {
    println!("-- decoded bus trace (commands as the controller model saw them)");
    for c in &run.rig.ctl.cmds {
        println!(
            "  t={:>10}ns  cmd {:02x} params {:02x?} pixels {}{}",
            c.t_ns,
            c.op,
            c.params,
            c.pixels,
            if c.opaque_page { " (vendor page)" } else { "" }
        );
    }
    println!("-- controller protocol violations: {:?}", run.rig.ctl.viols);
    println!("-- outcomes: {:?}", run.outcomes);
    let g = run.canvas.geo;
    println!("-- geometry {g:?}");
    if run.rig.ctl.mem.is_dense() && (g.fw as usize * g.fh as usize) <= 400 {
        println!("-- framebuffer: controller | specification ('.' = untouched)");
        for y in 0..g.fh {
            let row = |m: &crate::ctl::Mem| -> String {
                (0..g.fw)
                    .map(|x| {
                        let v = m.get(x, y);
                        if v == UNWRITTEN { "     .".to_string() } else { format!("{v:06x}") }
                    })
                    .collect::<Vec<_>>()
                    .join(" ")
            };
            println!("  {} | {}", row(&run.rig.ctl.mem), row(&run.canvas.mem));
        }
    } else if let Some(d) = run.rig.ctl.mem.first_diff(&run.canvas.mem) {
        println!("-- first differing cell: {d:?}");
    }
}

/// `mc <id> --replay <file>`: re-run one recorded history without any explorer
pub fn replay_file(ctx: &Ctx, path: &str) -> i32 {
    let s = match std::fs::read_to_string(path) {
        Ok(s) => s,
        Err(e) => {
            eprintln!("cannot read {path}: {e}");
            return 2;
        }
    };
    let v: serde_json::Value = serde_json::from_str(&s).expect("replay file is not JSON");
    println!("replaying {} / {}", v["property"], v["signature"]);
    println!("recorded message: {}", v["message"]);
    let case = &v["case"];
    if let Some(var) = case.get("variant").and_then(|x| x.as_str()) {
        if var != ctx.variant {
            eprintln!("note: recorded on variant '{var}', this binary is '{}': run the matching binary via ./check", ctx.variant);
            return 4;
        }
    }
    if case.get("checks").and_then(|x| x.as_str()) == Some("c16") {
        return super::c16::replay(case);
    }
    if case.get("kind").is_some() {
        // property-specific replay
        return super::replay_special(ctx, case);
    }
    let c: Case = serde_json::from_value(case.clone()).expect("replay case does not parse");
    let ck = Checks::by_name(&c.checks);
    match check_history(&c.cfg, &c.history, &ck) {
        Ok(run) => {
            dump_run(&run);
            println!("REPLAY: history passes all checks");
            0
        }
        Err((f, run)) => {
            if let Some(r) = &run {
                dump_run(r);
            }
            println!("REPLAY: {} -- {} (operation #{})", f.sig, f.msg, f.at);
            1
        }
    }
}
