//! C18 - DCS command types serialise to their MIPI opcode and big-endian parameters
use std::time::Instant;

use mipidsi::dcs::*;
use mipidsi::options::{ColorInversion, TearingEffect};
use rayon::prelude::*;
use serde_json::json;

use super::Entry;
use crate::env::*;
use crate::report::*;

pub const ENTRY: Entry = Entry {
    id: "C18",
    variants: &["batch"],
    level: "model_checking",
    rule: "every command type of the public dcs module against the MIPI-DCS table (01,10,11,12,13,20,21,28,29,2A,2B,2C,33,34,35,36,37, \
           38,39,3A): instruction(), fill_params_buf into an exact-length slice (a byte beyond it would panic) and into a 16-byte buffer \
           poisoned twice with different values (bytes >= n untouched), returned length; then write_command / write_raw through a \
           recording interface. Domains: column/page address over a boundary lattice^2 in quick and ALL 2^32 (start,end) pairs in \
           thorough; all 65536 scroll starts; scroll area over values with <= 2 bits set and complements, cubed; all 36 pixel formats; the address mode for all 64 constructor triples x setter chains of length <= 2; \
           all enum variants; write_raw for all 256 instructions x parameter lengths 0..=20; write_raw on the real SPI / 8-bit / 16-bit transports, \
           also after every (command ; pixel call) history over colliding opcodes / pixel words with each single low-level operation of that history \
           failing once. Non-trivial = commands with parameters.",
    assumptions: &["the MIPI DCS opcode table is transcribed in the harness"],
    run,
};

/// check one command against (opcode, parameter bytes); returns an error text
fn check_cmd<C: DcsCommand>(cmd: &C, op: u8, want: &[u8]) -> Option<String> {
    if cmd.instruction() != op {
        return Some(format!("instruction {:02x}, MIPI opcode {op:02x}", cmd.instruction()));
    }
    // exact-length slice: touching a byte beyond it panics
    let mut exact = vec![0x5Au8; want.len()];
    let r = std::panic::catch_unwind(std::panic::AssertUnwindSafe(|| cmd.fill_params_buf(&mut exact)));
    match r {
        Err(_) => return Some(format!("fill_params_buf panicked on an exact-length ({}) buffer", want.len())),
        Ok(n) => {
            if n != want.len() {
                return Some(format!("fill_params_buf returned {n}, expected {}", want.len()));
            }
            if exact != want {
                return Some(format!("parameters {exact:02x?}, expected {want:02x?}"));
            }
        }
    }
    for poison in [0xA5u8, 0x3C] {
        let mut b = [poison; 16];
        let n = cmd.fill_params_buf(&mut b);
        if n != want.len() || b[..n] != *want {
            return Some(format!("16-byte buffer: n={n} bytes {:02x?}, expected {want:02x?}", &b[..n.min(16)]));
        }
        if b[n..].iter().any(|x| *x != poison) {
            return Some(format!("bytes beyond the reported length were modified: {b:02x?}"));
        }
    }
    None
}

fn on_bus<C: DcsCommand>(cmd: C, op: u8, want: &[u8]) -> Option<String> {
    let bd = Board::new(Board::default_levels());
    let mut di = RecSerial::new(&bd);
    let _ = di.write_command(cmd);
    let b = bd.borrow();
    match b.evs.as_slice() {
        [Ev::Cmd { op: o, off, len, ok: true }] if *o == op && b.bytes[*off as usize..(*off + *len) as usize] == *want => None,
        e => Some(format!("write_command produced {e:?} with bytes {:02x?}, expected one command {op:02x} {want:02x?}", b.bytes)),
    }
}

fn lattice16() -> Vec<u16> {
    let mut v: Vec<u16> = vec![0, 1, 2, 0x00FF, 0x0100, 0x0101, 0x7FFF, 0x8000, 0xFF00, 0xFFFE, 0xFFFF, 0x1234, 319, 320, 479, 480];
    for b in 0..16 {
        v.push(1 << b);
        v.push(!(1u16 << b));
    }
    v.sort_unstable();
    v.dedup();
    v
}
fn two_bit_values() -> Vec<u16> {
    let mut v = vec![0u16];
    for a in 0..16 {
        v.push(1 << a);
        for b in (a + 1)..16 {
            v.push((1 << a) | (1 << b));
        }
    }
    let c: Vec<u16> = v.iter().map(|x| !x).collect();
    v.extend(c);
    v.sort_unstable();
    v.dedup();
    v
}

fn viol(ctx: &Ctx, name: &str, msg: String, detail: serde_json::Value) -> Violation {
    Violation { prop: ctx.prop.clone(), sig: format!("{name}/serialisation"), msg: format!("{name}: {msg}"), case: json!({"kind": "c18", "variant": ctx.variant, "command": name, "detail": detail}) }
}

fn run(ctx: &Ctx) -> Part {
    let t0 = Instant::now();
    let quick = ctx.quick();
    let mut acc = Acc::new();
    macro_rules! basic {
        ($t:expr, $op:expr, $name:expr) => {{
            acc.evaluations += 1;
            if let Some(m) = check_cmd(&$t, $op, &[]).or_else(|| on_bus($t, $op, &[])) {
                acc.violation(viol(ctx, $name, m, json!(null)));
            }
        }};
    }
    basic!(SoftReset, 0x01, "SoftReset");
    basic!(EnterSleepMode, 0x10, "EnterSleepMode");
    basic!(ExitSleepMode, 0x11, "ExitSleepMode");
    basic!(EnterPartialMode, 0x12, "EnterPartialMode");
    basic!(EnterNormalMode, 0x13, "EnterNormalMode");
    basic!(SetDisplayOff, 0x28, "SetDisplayOff");
    basic!(SetDisplayOn, 0x29, "SetDisplayOn");
    basic!(ExitIdleMode, 0x38, "ExitIdleMode");
    basic!(EnterIdleMode, 0x39, "EnterIdleMode");
    basic!(WriteMemoryStart, 0x2C, "WriteMemoryStart");
    basic!(SetInvertMode::new(ColorInversion::Normal), 0x20, "SetInvertMode(Normal)");
    basic!(SetInvertMode::new(ColorInversion::Inverted), 0x21, "SetInvertMode(Inverted)");
    basic!(SetTearingEffect::new(TearingEffect::Off), 0x34, "SetTearingEffect(Off)");
    for (te, p) in [(TearingEffect::Vertical, 0u8), (TearingEffect::HorizontalAndVertical, 1u8)] {
        acc.evaluations += 1;
        acc.nontrivial += 1;
        if let Some(m) = check_cmd(&SetTearingEffect::new(te), 0x35, &[p]).or_else(|| on_bus(SetTearingEffect::new(te), 0x35, &[p])) {
            acc.violation(viol(ctx, "SetTearingEffect", m, json!(p)));
        }
    }
    // address mode: all 64 new(colour, orientation, refresh) x setter chains of length <= 2 (14^2): the one parameter
    // byte is the MIPI encoding of the resulting triple (table derived in spec.rs, shared with C14)
    {
        use crate::dut::{orient_of, refresh_of};
        use mipidsi::options::ColorOrder;
        let co = |b: bool| if b { ColorOrder::Bgr } else { ColorOrder::Rgb };
        for k in 0..64u32 {
            for a1 in 0..15u32 {
                for a2 in 0..15u32 {
                    if a1 == 14 && a2 != 14 {
                        continue;
                    }
                    let (mut bgr, mut o, mut rf) = (k & 1 != 0, ((k >> 1) & 7) as u8, ((k >> 4) & 3) as u8);
                    let mut m = SetAddressMode::new(co(bgr), orient_of(o), refresh_of(rf));
                    for a in [a2, a1] {
                        match a {
                            0 | 1 => {
                                bgr = a == 1;
                                m = m.with_color_order(co(bgr));
                            }
                            2..=9 => {
                                o = (a - 2) as u8;
                                m = m.with_orientation(orient_of(o));
                            }
                            10..=13 => {
                                rf = (a - 10) as u8;
                                m = m.with_refresh_order(refresh_of(rf));
                            }
                            _ => {}
                        }
                    }
                    acc.evaluations += 1;
                    acc.nontrivial += 1;
                    let want = [crate::spec::madctl_spec(bgr, o, rf)];
                    let r = check_cmd(&m, 0x36, &want).or_else(|| if a2 == 14 { on_bus(m, 0x36, &want) } else { None });
                    if let Some(msg) = r {
                        acc.violation(viol(ctx, "SetAddressMode", format!("new(bgr {}, orientation {}, refresh {}) then setters {a2},{a1} (0-1 colour, 2-9 orientation, 10-13 refresh, 14 none): {msg}", k & 1, (k >> 1) & 7, k >> 4), json!([k, a2, a1])));
                    }
                }
            }
        }
    }
    // pixel formats: all 36 (dpi, dbi) pairs
    let bpps = [BitsPerPixel::Three, BitsPerPixel::Eight, BitsPerPixel::Twelve, BitsPerPixel::Sixteen, BitsPerPixel::Eighteen, BitsPerPixel::TwentyFour];
    let codes = [0b001u8, 0b010, 0b011, 0b101, 0b110, 0b111];
    for (i, dpi) in bpps.iter().enumerate() {
        for (j, dbi) in bpps.iter().enumerate() {
            let want = codes[i] << 4 | codes[j];
            acc.evaluations += 1;
            acc.nontrivial += 1;
            let c = SetPixelFormat::new(PixelFormat::new(*dpi, *dbi));
            if let Some(m) = check_cmd(&c, 0x3A, &[want]).or_else(|| on_bus(c, 0x3A, &[want])) {
                acc.violation(viol(ctx, "SetPixelFormat", m, json!([i, j])));
            }
            if i == j {
                let c = SetPixelFormat::new(PixelFormat::with_all(*dpi));
                if let Some(m) = check_cmd(&c, 0x3A, &[want]) {
                    acc.violation(viol(ctx, "SetPixelFormat::with_all", m, json!(i)));
                }
            }
        }
    }
    // scroll start: all 65536
    for o in 0..=65535u32 {
        let o = o as u16;
        acc.evaluations += 1;
        acc.nontrivial += 1;
        let want = [(o >> 8) as u8, o as u8];
        let c = SetScrollStart::new(o);
        let r = check_cmd(&c, 0x37, &want).or_else(|| if o % 257 == 0 { on_bus(c, 0x37, &want) } else { None });
        if let Some(m) = r {
            acc.violation(viol(ctx, "SetScrollStart", m, json!(o)));
        }
    }
    // address commands
    let lat = lattice16();
    let addr = |acc: &mut Acc, s: u16, e: u16, bus: bool| {
        let want = [(s >> 8) as u8, s as u8, (e >> 8) as u8, e as u8];
        acc.evaluations += 2;
        acc.nontrivial += 2;
        let c = SetColumnAddress::new(s, e);
        if let Some(m) = check_cmd(&c, 0x2A, &want).or_else(|| if bus { on_bus(c, 0x2A, &want) } else { None }) {
            acc.violation(viol(ctx, "SetColumnAddress", m, json!([s, e])));
        }
        let c = SetPageAddress::new(s, e);
        if let Some(m) = check_cmd(&c, 0x2B, &want).or_else(|| if bus { on_bus(c, 0x2B, &want) } else { None }) {
            acc.violation(viol(ctx, "SetPageAddress", m, json!([s, e])));
        }
    };
    for &s in &lat {
        for &e in &lat {
            addr(&mut acc, s, e, true);
        }
    }
    if !quick {
        let starts: Vec<u32> = (0..65536).collect();
        let a = starts
            .par_iter()
            .fold(Acc::new, |mut acc, &s| {
                for e in 0..=65535u32 {
                    addr(&mut acc, s as u16, e as u16, false);
                }
                acc
            })
            .reduce(Acc::new, Acc::merge);
        acc = acc.merge(a);
        acc.count("full_2^32_address_pairs", 1);
    }
    // scroll area: values with <= 2 bits set and complements, cubed
    let tb = two_bit_values();
    let tbq: Vec<u16> = tb.clone();
    let _ = quick;
    let a = tbq
        .par_iter()
        .fold(Acc::new, |mut acc, &t| {
            for &v in &tbq {
                for &b in &tbq {
                    acc.evaluations += 1;
                    acc.nontrivial += 1;
                    let want = [(t >> 8) as u8, t as u8, (v >> 8) as u8, v as u8, (b >> 8) as u8, b as u8];
                    let c = SetScrollArea::new(t, v, b);
                    if let Some(m) = check_cmd(&c, 0x33, &want) {
                        acc.violation(viol(ctx, "SetScrollArea", m, json!([t, v, b])));
                    }
                }
            }
            acc
        })
        .reduce(Acc::new, Acc::merge);
    acc = acc.merge(a);
    // write_raw: all instructions x lengths 0..=20
    for instr in 0..=255u8 {
        for len in 0..=20usize {
            acc.evaluations += 1;
            if len > 0 {
                acc.nontrivial += 1;
            }
            let params: Vec<u8> = (0..len).map(|i| (i as u8).wrapping_mul(37).wrapping_add(instr)).collect();
            let bd = Board::new(Board::default_levels());
            let mut di = RecPar8::new(&bd);
            let _ = di.write_raw(instr, &params);
            let b = bd.borrow();
            let ok = matches!(b.evs.as_slice(), [Ev::Cmd { op, ok: true, .. }] if *op == instr) && b.bytes == params;
            if !ok {
                acc.violation(viol(ctx, "write_raw", format!("instruction {instr:02x} with {len} parameter bytes produced {:?} / {:02x?}", b.evs, b.bytes), json!([instr, len])));
            }
        }
    }
    // write_command / write_raw through the real transports (SPI with staging buffers shorter than the
    // parameter list, parallel buses), decoded at SPI / pin level
    {
        use crate::tr::{TCall, TRig};
        let mut rigs: Vec<(String, TRig)> = Vec::new();
        for l in [2usize, 3, 4, 5, 7, 16, 64] {
            rigs.push((format!("Spi({l})"), TRig::spi(l, 0xEE)));
        }
        rigs.push(("Par8".into(), TRig::par8(Board::default_levels())));
        rigs.push(("Par16".into(), TRig::par16(Board::default_levels())));
        for (name, t) in rigs.iter_mut() {
            let mut sends: Vec<(u8, Vec<u8>)> = Vec::new();
            for &(a, b) in &[(0u16, 0u16), (0x0102, 0xFFFE), (319, 479), (0xFF00, 0x00FF)] {
                sends.push((0x2A, vec![(a >> 8) as u8, a as u8, (b >> 8) as u8, b as u8]));
                sends.push((0x2B, vec![(a >> 8) as u8, a as u8, (b >> 8) as u8, b as u8]));
            }
            sends.push((0x33, vec![0x01, 0x02, 0x03, 0x04, 0x05, 0x06]));
            sends.push((0x33, vec![0x80, 0x01, 0x00, 0x03, 0xFF, 0xFE]));
            sends.push((0x37, vec![0x12, 0x34]));
            sends.push((0x36, vec![0xA8]));
            sends.push((0x3A, vec![0x55]));
            sends.push((0x35, vec![0x01]));
            sends.push((0x11, vec![]));
            for len in [0usize, 1, 2, 3, 5, 6, 7, 8, 15, 16, 17, 20] {
                sends.push((0xB0u8.wrapping_add(len as u8), (0..len).map(|i| (i as u8).wrapping_mul(29).wrapping_add(3)).collect()));
            }
            for (op, params) in sends {
                acc.evaluations += 1;
                acc.nontrivial += 1;
                let c = TCall::Cmd { op, args: params.clone() };
                // through the public extension trait on the real interface
                let out = t.call_raw(op, &params);
                let got = t.latched();
                if !out.is_ok() || got != c.expected() {
                    acc.violation(viol(ctx, "write_raw(real transport)", format!("{name}: instruction {op:02x} with parameters {params:02x?}: outcome {out:?}, device latched {got:02x?}"), json!([name, op, params])));
                }
            }
            acc.count("real_transport_rigs", 1);
        }
    }
    // write_raw on the real transports after a history: command ; pixel call ; command, with opcodes and pixel
    // words chosen to collide (a transport that remembers what it last put on the lines), and with every single
    // low-level operation of the first two calls failing once (state left over from an aborted call)
    {
        use crate::tr::{TCall, TRig};
        let cmds: Vec<(u8, Vec<u8>)> = vec![
            (0x2C, vec![]),
            (0x2A, vec![0x00, 0x2A, 0x01, 0x3F]),
            (0x36, vec![0xA8]),
            (0x00, vec![]),
            (0xFF, vec![0xFF, 0xFF]),
            (0x2C, vec![0x2C]),
        ];
        let mk = |kind: usize| -> TRig {
            match kind {
                0 => TRig::spi(3, 0xEE),
                1 => TRig::spi(5, 0xEE),
                2 => TRig::spi(16, 0xEE),
                3 => TRig::par8(Board::default_levels()),
                _ => TRig::par16(Board::default_levels()),
            }
        };
        let names = ["Spi(3)", "Spi(5)", "Spi(16)", "Par8", "Par16"];
        let jobs: Vec<usize> = (0..5).collect();
        let a = jobs
            .par_iter()
            .fold(Acc::new, |mut acc, &kind| {
                let xs: Vec<Option<TCall>> = if kind == 4 {
                    vec![
                        None,
                        Some(TCall::Pixels { n: 1, words: vec![0x002C, 0x2C2C] }),
                        Some(TCall::Pixels { n: 1, words: vec![0x0102, 0xFFFE, 0x0000] }),
                        Some(TCall::Repeat { pixel: vec![0x002C], count: 1 }),
                        Some(TCall::Repeat { pixel: vec![0x5555], count: 3 }),
                        Some(TCall::Repeat { pixel: vec![0x0000], count: 2 }),
                        Some(TCall::Repeat { pixel: vec![0x00FF], count: 2 }),
                        Some(TCall::Repeat { pixel: vec![0x1234], count: 0 }),
                    ]
                } else {
                    vec![
                        None,
                        Some(TCall::Pixels { n: 2, words: vec![0x2C, 0x2C] }),
                        Some(TCall::Pixels { n: 2, words: vec![1, 2, 3, 4, 5, 6] }),
                        Some(TCall::Repeat { pixel: vec![0x2C, 0x2C], count: 1 }),
                        Some(TCall::Repeat { pixel: vec![0x55, 0x55], count: 3 }),
                        Some(TCall::Repeat { pixel: vec![0x12, 0x34], count: 2 }),
                        Some(TCall::Repeat { pixel: vec![0x00, 0x00], count: 2 }),
                        Some(TCall::Repeat { pixel: vec![0xFF, 0xFF, 0xFF], count: 2 }),
                        Some(TCall::Repeat { pixel: vec![0x12, 0x34], count: 0 }),
                    ]
                };
                for (ai, ca) in cmds.iter().enumerate() {
                    for (xi, x) in xs.iter().enumerate() {
                        // fault position: None, or the k-th operation counted from the start of call A (spans A and X)
                        let mut k: Option<u64> = None;
                        loop {
                            let mut fired_any = k.is_none();
                            for cb in cmds.iter() {
                                let mut t = mk(kind);
                                t.bd.borrow_mut().budget = 20_000; // termination oracle for the whole history
                                let ops0 = t.bd.borrow().ops;
                                if let Some(k) = k {
                                    t.bd.borrow_mut().faults = vec![Fault { at: ops0 + k, mode: FaultMode::Unchanged }];
                                }
                                let o1 = t.call_raw(ca.0, &ca.1);
                                let mut failed = !o1.is_ok();
                                if !failed {
                                    if let Some(x) = x {
                                        failed = !t.call(x).is_ok();
                                    }
                                }
                                let fired = !t.bd.borrow().failed_ops.is_empty();
                                t.bd.borrow_mut().faults.clear();
                                if k.is_some() && !fired {
                                    break;
                                }
                                fired_any = true;
                                let _ = failed;
                                let _ = t.latched();
                                acc.evaluations += 1;
                                acc.nontrivial += 1;
                                acc.count(if k.is_some() { "transport_histories_with_fault" } else { "transport_histories" }, 1);
                                let out = t.call_raw(cb.0, &cb.1);
                                let got = t.latched();
                                let want = TCall::Cmd { op: cb.0, args: cb.1.clone() }.expected();
                                if !out.is_ok() || got != want {
                                    let sig = if k.is_some() { "write_raw(real transport, after a failed call)" } else { "write_raw(real transport, after other calls)" };
                                    acc.violation(viol(
                                        ctx,
                                        sig,
                                        format!("{}: write_raw({:02x}, {:02x?}) ; {:?}{} ; write_raw({:02x}, {:02x?}): outcome {out:?}, device latched {got:02x?}", names[kind], ca.0, ca.1, x, match k { Some(k) => format!(" [operation {k} of this history fails once]"), None => String::new() }, cb.0, cb.1),
                                        json!([names[kind], ai, xi, k]),
                                    ));
                                }
                            }
                            if !fired_any {
                                break;
                            }
                            k = Some(k.map_or(0, |k| k + 1));
                            if k.unwrap() > 400 {
                                break;
                            }
                        }
                    }
                }
                acc
            })
            .reduce(Acc::new, Acc::merge);
        acc = acc.merge(a);
    }
    acc.states = 20;
    acc.transitions = acc.evaluations;
    acc.traces = acc.evaluations;
    acc.sample(json!({"command": "SetColumnAddress", "start": 0x0102, "end": 0xFFFE, "expected": [1, 2, 255, 254]}));
    acc.sample(json!({"command": "SetScrollArea", "tfa": 0x8001, "vsa": 0x0003, "bfa": 0xFFFE}));
    let bounds = json!({"address_pairs": if quick { format!("lattice of {} values squared", lat.len()) } else { "all 2^32".into() }, "scroll_area_values": tbq.len(), "pixel_formats": 36, "scroll_starts": 65536, "write_raw": "256 x 21"});
    let mut part = Part::new(ctx, acc, bounds, true, t0.elapsed().as_secs_f64());
    part.acc.n_outcomes = 20;
    part
}

pub fn replay(case: &serde_json::Value) -> i32 {
    println!("{}", serde_json::to_string_pretty(case).unwrap());
    println!("REPLAY: re-run ./check C18 (the case above names the command and its arguments)");
    0
}
