//! C15 - orientation operations compose like rectangle symmetries; angle parsing is total
use std::time::Instant;

use mipidsi::options::{Orientation, Rotation};
use rayon::prelude::*;
use serde_json::json;

use super::Entry;
use crate::dut::*;
use crate::e1::{self, Sys};
use crate::report::*;
use crate::rig::*;

pub const ENTRY: Entry = Entry {
    id: "C15",
    variants: &["batch", "wrap", "nobatch"],
    level: "model_checking",
    rule: "(a) complete closure (stateright BFS) over the 8 orientations with actions rotate(0/90/180/270), flip_horizontal, \
           flip_vertical on the real Orientation API. Geometric oracle computed through the real Display and the reference controller: \
           for a labelled asymmetric image I on a non-square window with offset, picture(o.op(), I) == picture(o, T_op(I)) where T is \
           rotate-clockwise / mirror-left-right / mirror-top-bottom of the image. The same words (length <= 3, from every orientation) applied step by step with set_orientation on one live display show the picture of a display built with the result. Group laws (four quarter turns, double flip, h then v \
           = half turn, rotations add mod 360) on all words of length <= 4 from every orientation. (b) Rotation::try_from_degree on ALL \
           2^32 i32 values against an i64 oracle (Ok iff angle mod 90 == 0, value == angle mod 360), with overflow checks on and off; \
           Rotation::rotate on all 16 pairs. Non-trivial = accepted angles and state-changing transitions.",
    assumptions: &["pictures are decoded by the reference controller from the real driver's bus traffic"],
    run,
};

/// picture shown on the panel (window cells in panel coordinates) when drawing image `img`
/// (logical w x h, row-major labels) under orientation `o`
fn picture(o: u8, img: &dyn Fn(u32, u32) -> u32, cfg0: &Cfg) -> Result<Vec<u32>, String> {
    let cfg = Cfg { orient: o, ..*cfg0 };
    let mut rig = Rig::new(&cfg);
    if !rig.init.is_ok() {
        return Err(format!("init {:?}", rig.init));
    }
    let (lw, lh) = cfg.geo().lsize();
    let mut px = Vec::new();
    for y in 0..lh {
        for x in 0..lw {
            px.push((x as i32, y as i32, img(x, y)));
        }
    }
    let out = rig.apply(&Op::DrawIter(Pixels::List(px)));
    if !out.is_ok() {
        return Err(format!("draw {out:?}"));
    }
    let g = cfg.geo();
    let mut v = Vec::new();
    for y in g.oy..g.oy + g.h {
        for x in g.ox..g.ox + g.w {
            v.push(rig.ctl.mem.get(x, y));
        }
    }
    Ok(v)
}

/// picture shown when ONE live display, initialised with orientation `start`, is taken through the orientations
/// start.op1(), start.op1().op2(), ... by set_orientation and the labelled image is then drawn
fn picture_live(start: u8, word: &[u32], img: &dyn Fn(u32, u32) -> u32, cfg0: &Cfg) -> Result<(u8, Vec<u32>), String> {
    let cfg = Cfg { orient: start, ..*cfg0 };
    let mut rig = Rig::new(&cfg);
    if !rig.init.is_ok() {
        return Err(format!("init {:?}", rig.init));
    }
    let mut o = orient_of(start);
    for &a in word {
        o = apply_op(o, a);
        let out = rig.apply(&Op::SetOrientation(orient_idx(o)));
        if !out.is_ok() {
            return Err(format!("set_orientation {out:?}"));
        }
    }
    let g = Cfg { orient: orient_idx(o), ..*cfg0 }.geo();
    let (lw, lh) = g.lsize();
    let mut px = Vec::new();
    for y in 0..lh {
        for x in 0..lw {
            px.push((x as i32, y as i32, img(x, y)));
        }
    }
    let out = rig.apply(&Op::DrawIter(Pixels::List(px)));
    if !out.is_ok() {
        return Err(format!("draw {out:?}"));
    }
    let mut v = Vec::new();
    for y in g.oy..g.oy + g.h {
        for x in g.ox..g.ox + g.w {
            v.push(rig.ctl.mem.get(x, y));
        }
    }
    Ok((orient_idx(o), v))
}

fn apply_op(o: Orientation, a: u32) -> Orientation {
    match a {
        0 => o.rotate(Rotation::Deg0),
        1 => o.rotate(Rotation::Deg90),
        2 => o.rotate(Rotation::Deg180),
        3 => o.rotate(Rotation::Deg270),
        4 => o.flip_horizontal(),
        _ => o.flip_vertical(),
    }
}
fn op_name(a: u32) -> &'static str {
    ["rotate(Deg0)", "rotate(Deg90)", "rotate(Deg180)", "rotate(Deg270)", "flip_horizontal", "flip_vertical"][a as usize]
}

#[derive(Clone)]
struct Sys15 {
    cfg: Cfg,
}
impl Sys for Sys15 {
    fn roots(&self) -> usize {
        8
    }
    fn root_in_key(&self) -> bool {
        false
    }
    fn actions(&self, _r: usize) -> Vec<u32> {
        (0..6).collect()
    }
    fn max_depth(&self) -> usize {
        6
    }
    fn exec(&self, root: usize, hist: &[u32]) -> (Vec<u64>, Option<String>) {
        let mut o = orient_of(root as u8);
        let mut bad = None;
        for (i, &a) in hist.iter().enumerate() {
            let prev = o;
            o = apply_op(o, a);
            if i + 1 != hist.len() {
                continue;
            }
            if o != prev {
                e1::flag();
            }
            // geometric oracle for the last transition.  The logical image under `o` is the
            // transformed image T(I) of what is shown under `prev`:
            //   picture(prev.op(), I) == picture(prev, T_op(I))
            let gp = Cfg { orient: orient_idx(prev), ..self.cfg }.geo();
            let gn = Cfg { orient: orient_idx(o), ..self.cfg }.geo();
            let (pw, ph) = gp.lsize(); // size of images drawn under prev
            let (nw, nh) = gn.lsize(); // size of images drawn under the new orientation
            // I lives in the new orientation's logical frame (nw x nh); label = asymmetric
            let label = |x: u32, y: u32| 1 + y * 16 + x;
            // T_op(I): the image to draw under `prev` so that it shows the same as I under prev.op()
            let t = |x: u32, y: u32| -> u32 {
                // (x,y) in prev's logical frame (pw x ph); find the source pixel of I
                match a {
                    0 => label(x, y),
                    // rotate clockwise by 90: T(I)(x,y) = I(y, W'-1-x) with I of size nw x nh, T(I) size nh x nw
                    1 => label(y, nh - 1 - x),
                    2 => label(nw - 1 - x, nh - 1 - y),
                    3 => label(nw - 1 - y, x),
                    4 => label(nw - 1 - x, y),
                    _ => label(x, nh - 1 - y),
                }
            };
            let dims_ok = match a {
                1 | 3 => (pw, ph) == (nh, nw),
                _ => (pw, ph) == (nw, nh),
            };
            if !dims_ok {
                bad = Some(format!("{}/size|logical size {}x{} under the result, {}x{} before", op_name(a), nw, nh, pw, ph));
                break;
            }
            let left = picture(orient_idx(o), &label, &self.cfg);
            let right = picture(orient_idx(prev), &t, &self.cfg);
            match (left, right) {
                (Ok(l), Ok(r)) => {
                    if l != r {
                        bad = Some(format!(
                            "{}/picture|{:?}.{} = {:?} does not show the {} image of the original orientation",
                            op_name(a),
                            prev,
                            op_name(a),
                            o,
                            ["unchanged", "90-degree clockwise rotated", "180-degree rotated", "270-degree clockwise rotated", "left-right mirrored", "top-bottom mirrored"][a as usize]
                        ));
                    }
                }
                (l, r) => bad = Some(format!("{}/draw|{:?} {:?}", op_name(a), l.err(), r.err())),
            }
        }
        (vec![orient_idx(o) as u64], bad)
    }
}

fn group_laws() -> (u64, Option<(String, String)>) {
    let mut n = 0;
    for r in 0..8u8 {
        let o = orient_of(r);
        // explicit laws
        let q = Rotation::Deg90;
        let checks: Vec<(&str, Orientation, Orientation)> = vec![
            ("four quarter turns", o.rotate(q).rotate(q).rotate(q).rotate(q), o),
            ("two horizontal flips", o.flip_horizontal().flip_horizontal(), o),
            ("two vertical flips", o.flip_vertical().flip_vertical(), o),
            ("h then v = half turn", o.flip_horizontal().flip_vertical(), o.rotate(Rotation::Deg180)),
            ("v then h = half turn", o.flip_vertical().flip_horizontal(), o.rotate(Rotation::Deg180)),
        ];
        for (name, a, b) in checks {
            n += 1;
            if a != b {
                return (n, Some((format!("group-law/{name}"), format!("from {o:?}: {a:?} != {b:?}"))));
            }
        }
        for a in 0..4u32 {
            for b in 0..4u32 {
                n += 1;
                let ra = [Rotation::Deg0, Rotation::Deg90, Rotation::Deg180, Rotation::Deg270][a as usize];
                let rb = [Rotation::Deg0, Rotation::Deg90, Rotation::Deg180, Rotation::Deg270][b as usize];
                let rc = [Rotation::Deg0, Rotation::Deg90, Rotation::Deg180, Rotation::Deg270][((a + b) % 4) as usize];
                if o.rotate(ra).rotate(rb) != o.rotate(rc) || ra.rotate(rb) != rc || ra.rotate(rb).degree() != ((a + b) % 4 * 90) as i32 {
                    return (n, Some(("group-law/rotations-add".into(), format!("{ra:?} then {rb:?} from {o:?}"))));
                }
            }
        }
        // all words of length <= 4: the result must equal the composition in the dihedral group,
        // computed independently as (rotation quarter-turns, mirrored) with the picture semantics
        for len in 1..=4u32 {
            for w in 0..6u32.pow(len) {
                n += 1;
                let mut oo = o;
                // reference: track (k, m) where the picture is: mirror (if m) then rotate k quarter turns
                let (mut k, mut m) = ((r & 3) as i32, r >= 4);
                let mut ww = w;
                for _ in 0..len {
                    let a = ww % 6;
                    ww /= 6;
                    oo = apply_op(oo, a);
                    match a {
                        0..=3 => k = (k + a as i32) % 4,
                        // mirroring the shown picture left-right: m toggles; a rotation by k followed by
                        // a mirror equals a mirror followed by a rotation by -k
                        4 => {
                            m = !m;
                            k = (4 - k) % 4;
                        }
                        _ => {
                            m = !m;
                            k = (4 - k + 2) % 4;
                        }
                    }
                }
                let want = (k as u8) + if m { 4 } else { 0 };
                if orient_idx(oo) != want {
                    return (n, Some(("group-law/word".into(), format!("word {w} (base 6, length {len}) from orientation {r}: API gives {}, dihedral composition {want}", orient_idx(oo)))));
                }
            }
        }
    }
    (n, None)
}

fn run(ctx: &Ctx) -> Part {
    let t0 = Instant::now();
    let mut acc = Acc::new();
    // (a) closure with geometric oracle (only in the checked build; the wrap build repeats (b))
    if !ctx.wrap {
        for cfg in [Cfg::tiny(4, 3, false, Transport::RecSerial, (3, 2, 1, 0), 0), Cfg::tiny(3, 5, false, Transport::RecSerial, (2, 3, 0, 2), 0)] {
            match e1::close_checked(Sys15 { cfg }, 16) {
                Err(e) => {
                    eprintln!("MACHINERY: {e}");
                    std::process::exit(2);
                }
                Ok(c) => {
                    acc.states += c.unique_states;
                    acc.transitions += c.transitions;
                    acc.evaluations += c.transitions;
                    acc.nontrivial += c.flagged;
                    acc.count("closure_transitions", c.transitions);
                    if let Some((root, hist, msg)) = c.counterexample {
                        let (sig, text) = msg.split_once('|').unwrap_or(("c15", &msg));
                        acc.violation(Violation {
                            prop: ctx.prop.clone(),
                            sig: sig.to_string(),
                            msg: format!("{text} [from orientation {root}, operations {:?}]", hist.iter().map(|a| op_name(*a)).collect::<Vec<_>>()),
                            case: json!({"kind": "c15", "variant": ctx.variant, "cfg": cfg, "root": root, "actions": hist}),
                        });
                    }
                }
            }
        }
        // live displays: the same words applied step by step with set_orientation on one display object show the
        // same picture as a display built with the resulting orientation (words of length <= 3 from every orientation,
        // non-default colour and refresh order so that the address mode carries bits the orientation must not disturb)
        let mut live_cfg = Cfg::tiny(4, 3, false, Transport::RecSerial, (3, 2, 1, 0), 0);
        live_cfg.bgr = true;
        live_cfg.refresh = 3;
        let label = |x: u32, y: u32| 1 + y * 16 + x;
        let mut words: Vec<Vec<u32>> = Vec::new();
        for a in 0..6u32 {
            words.push(vec![a]);
            for b in 0..6u32 {
                words.push(vec![a, b]);
                for c in 0..6u32 {
                    words.push(vec![a, b, c]);
                }
            }
        }
        let fresh: Vec<Result<Vec<u32>, String>> = (0..8u8).map(|o| picture(o, &label, &live_cfg)).collect();
        let jobs: Vec<(u8, &Vec<u32>)> = (0..8u8).flat_map(|s| words.iter().map(move |w| (s, w))).collect();
        let a = jobs
            .par_iter()
            .fold(Acc::new, |mut acc, &(s, w)| {
                acc.evaluations += 1;
                acc.nontrivial += 1;
                acc.transitions += w.len() as u64;
                acc.count("live_display_words", 1);
                let bad = match picture_live(s, w, &label, &live_cfg) {
                    Ok((o, v)) => match &fresh[o as usize] {
                        Ok(f) if *f == v => None,
                        Ok(_) => Some(format!("the picture differs from that of a display built with the resulting orientation {o}")),
                        Err(e) => Some(format!("fresh display: {e}")),
                    },
                    Err(e) => Some(e),
                };
                if let Some(m) = bad {
                    acc.violation(Violation {
                        prop: ctx.prop.clone(),
                        sig: "live-display/picture".into(),
                        msg: format!("display initialised with orientation {s}, then set_orientation along {:?}: {m}", w.iter().map(|a| op_name(*a)).collect::<Vec<_>>()),
                        case: json!({"kind": "c15", "variant": ctx.variant, "leg": "live", "cfg": live_cfg, "root": s, "actions": w}),
                    });
                }
                acc
            })
            .reduce(Acc::new, Acc::merge);
        acc = acc.merge(a);
        let (n, f) = group_laws();
        acc.evaluations += n;
        acc.count("group_law_checks", n);
        if let Some((sig, msg)) = f {
            acc.violation(Violation { prop: ctx.prop.clone(), sig, msg, case: json!({"kind": "c15", "variant": ctx.variant, "leg": "group"}) });
        }
    }
    // (b) all 2^32 angles (not repeated on the nobatch variant: the code is feature-independent)
    let chunks: Vec<i64> = if ctx.batch { (0..4096).collect() } else { Vec::new() };
    let a = chunks
        .par_iter()
        .fold(Acc::new, |mut acc, &c| {
            let lo = i32::MIN as i64 + c * (1 << 20);
            let mut accepted = 0u64;
            let r = std::panic::catch_unwind(|| {
                let mut acc_n = 0u64;
                let mut bad: Option<(i32, String)> = None;
                for a in lo..lo + (1 << 20) {
                    let a = a as i32;
                    let got = Rotation::try_from_degree(a);
                    let m = (a as i64).rem_euclid(360);
                    let want = if (a as i64).rem_euclid(90) == 0 { Some(m as i32) } else { None };
                    match (got, want) {
                        (Ok(r), Some(d)) if r.degree() == d => acc_n += 1,
                        (Err(_), None) => {}
                        (g, w) => {
                            if bad.is_none() {
                                bad = Some((a, format!("try_from_degree({a}) = {g:?}, specification {w:?}")));
                            }
                        }
                    }
                }
                (acc_n, bad)
            });
            acc.evaluations += 1 << 20;
            match r {
                Ok((n, bad)) => {
                    accepted = n;
                    if let Some((a, m)) = bad {
                        acc.violation(Violation { prop: ctx.prop.clone(), sig: "try_from_degree/value".into(), msg: m, case: json!({"kind": "c15", "variant": ctx.variant, "leg": "angle", "angle": a}) });
                    }
                }
                Err(_) => {
                    acc.violation(Violation { prop: ctx.prop.clone(), sig: "try_from_degree/panic".into(), msg: format!("panic for an angle in [{lo}, {})", lo + (1 << 20)), case: json!({"kind": "c15", "variant": ctx.variant, "leg": "angle", "angle": lo}) });
                }
            }
            acc.nontrivial += accepted;
            acc.count("angles_accepted", accepted);
            acc
        })
        .reduce(Acc::new, Acc::merge);
    acc = acc.merge(a);
    acc.traces = acc.evaluations;
    acc.transitions = acc.transitions.max(1);
    acc.states = acc.states.max(1);
    acc.sample(json!({"orientation": "Deg90 mirrored", "operation": "flip_vertical", "oracle": "picture(o.flip_vertical(), I) == picture(o, top-bottom mirrored I)"}));
    acc.sample(json!({"angle": -2147483648i64, "expected": "Err (not a multiple of 90), no overflow"}));
    let bounds = json!({"orientations": 8, "operations": 6, "words": "length <= 4 from every orientation", "angles": "all 2^32"});
    let mut part = Part::new(ctx, acc, bounds, true, t0.elapsed().as_secs_f64());
    part.acc.n_outcomes = 8 + 5;
    if ctx.batch {
        part.require("angles_accepted", 47_721_859);
    }
    part
}

pub fn replay(case: &serde_json::Value) -> i32 {
    if case["leg"] == "angle" {
        let a = case["angle"].as_i64().unwrap() as i32;
        println!("try_from_degree({a}) = {:?}", std::panic::catch_unwind(|| Rotation::try_from_degree(a)));
        return 0;
    }
    if case["leg"] == "live" {
        let cfg: Cfg = serde_json::from_value(case["cfg"].clone()).unwrap();
        let s = case["root"].as_u64().unwrap() as u8;
        let w: Vec<u32> = serde_json::from_value(case["actions"].clone()).unwrap();
        let label = |x: u32, y: u32| 1 + y * 16 + x;
        let live = picture_live(s, &w, &label, &cfg);
        println!("live display from orientation {s} along {:?}: {live:?}", w.iter().map(|a| op_name(*a)).collect::<Vec<_>>());
        if let Ok((o, v)) = live {
            let f = picture(o, &label, &cfg);
            println!("display built with orientation {o}: {f:?}");
            if f.as_ref().ok() == Some(&v) {
                println!("REPLAY: passes");
                return 0;
            }
        }
        println!("REPLAY: live-display/picture");
        return 1;
    }
    if case["leg"] == "group" {
        println!("{:?}", group_laws());
        return 0;
    }
    let cfg: Cfg = serde_json::from_value(case["cfg"].clone()).unwrap();
    let root = case["root"].as_u64().unwrap() as usize;
    let actions: Vec<u32> = serde_json::from_value(case["actions"].clone()).unwrap();
    let (key, bad) = Sys15 { cfg }.exec(root, &actions);
    println!("from orientation {root}: {:?} -> orientation {}", actions.iter().map(|a| op_name(*a)).collect::<Vec<_>>(), key[0]);
    match bad {
        Some(m) => {
            println!("REPLAY: {m}");
            1
        }
        None => {
            println!("REPLAY: passes");
            0
        }
    }
}
