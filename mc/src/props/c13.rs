//! C13 - sleep state tracking and 120 ms sleep-in/out spacing hold over any history
use std::time::Instant;

use serde_json::json;

use super::Entry;
use crate::dut::*;
use crate::e1::{self, Sys};
use crate::report::*;
use crate::rig::*;

pub const ENTRY: Entry = Entry {
    id: "C13",
    variants: &["batch"],
    level: "model_checking",
    rule: "explicit-state closure (stateright BFS, 1 and 16 threads compared) after the real init of built-in models on every \
           supported interface kind: actions = {sleep, wake, clear, set_pixel, set_orientation, scroll region, scroll offset, tearing} plus sleep / wake with the k-th low-level operation of the call failing (k < 8, at most two failing calls per history: 'last *successful*' clause); \
           every transition replays the history on a fresh display with virtual time advanced only by the delay source (worst case). \
           Key = (is_sleeping(), private driver state via hook, controller sleep state, pin levels). Invariants in every state: is_sleeping() == \
           controller sleep state == (last of init/sleep/wake was sleep); every call that sent sleep-in/out returned >= 120 ms after \
           the command; no two sleep-in/out commands (including init's sleep-out) closer than 120 ms. Long runs: six repeating patterns of sleep / wake / tearing / clear over 1100 calls, checked after every call (hidden counters). Non-trivial = transitions that \
           sent a sleep-in or sleep-out command.",
    assumptions: &["virtual clock advanced only by DelayNs calls (worst case for every >= 120 ms clause)", "fault-free histories (faults: C12)"],
    run,
};

#[derive(Clone)]
struct Sys13 {
    roots: Vec<Cfg>,
}
pub fn action_op(a: u32) -> Op {
    match a {
        0 => Op::Sleep,
        1 => Op::Wake,
        2 => Op::Clear { c: 0x0821 },
        3 => Op::SetPixel { x: 1, y: 2, c: 0xF81F },
        4 => Op::SetOrientation(2),
        5 => Op::ScrollRegion(1, 1),
        6 => Op::ScrollOffset(3),
        _ => Op::Tearing(1),
    }
}
impl Sys for Sys13 {
    fn roots(&self) -> usize {
        self.roots.len()
    }
    fn actions(&self, _r: usize) -> Vec<u32> {
        // 0..8 fault-free calls; 8..24: sleep (even) / wake (odd) with the k-th low-level operation of
        // the call failing, k = (a - 8) / 2 < 8 (covers DC, WR and every data pin that changes for 0x10/0x11)
        (0..24).collect()
    }
    fn max_depth(&self) -> usize {
        5
    }
    fn enabled(&self, _root: usize, hist: &[u32]) -> bool {
        // deviation bound: at most two failing calls per history
        hist.iter().filter(|a| **a >= 8).count() <= 2
    }
    fn exec(&self, root: usize, hist: &[u32]) -> (Vec<u64>, Option<String>) {
        let cfg = self.roots[root];
        let mut rig = Rig::new(&cfg);
        if !rig.init.is_ok() {
            return (vec![0], Some(format!("init/failed|{:?}", rig.init)));
        }
        let mut want = false;
        let mut bad = None;
        let mut diverged = false; // a failed call may have delivered its command: controller state unknown
        for (i, &a) in hist.iter().enumerate() {
            if a >= 8 {
                // failing sleep / wake
                let op = if a % 2 == 0 { Op::Sleep } else { Op::Wake };
                let k = ((a - 8) / 2) as u64;
                let base = rig.ops();
                let n_slp0 = rig.ctl.slp_events.len();
                rig.set_faults(&[crate::env::Fault { at: base + k, mode: crate::env::FaultMode::Unchanged }]);
                let out = rig.apply(&op);
                rig.set_faults(&[]);
                let fired = rig.bd.borrow().failed_ops.iter().any(|f| f.0 == base + k);
                match (&out, fired) {
                    (Outcome::Err(_), true) => {
                        // only if the controller really received a sleep command during the failed call is its
                        // state allowed to differ from the driver's flag afterwards
                        if rig.ctl.slp_events.len() != n_slp0 {
                            diverged = true;
                            // At the Interface boundary (recording transports) commands are atomic: the failing
                            // command was not delivered, so a sleep command that *was* delivered in this failed call
                            // is a different, successful one - the flag and the controller now disagree, and no
                            // reading of "last successful call" repairs that.
                            if !cfg.tr.is_real() {
                                bad = Some(format!(
                                    "{}/diverged-after-failed-call|the call failed at its command #{k}, but a sleep-in/out command of the same call had already reached the controller: controller sleeping = {}, is_sleeping() = {}",
                                    op.name(),
                                    rig.ctl.sleeping,
                                    rig.dut.as_ref().unwrap().is_sleeping()
                                ));
                                break;
                            }
                        }
                        if i + 1 == hist.len() {
                            e1::flag();
                        }
                    } // flag must stay as it was
                    (Outcome::Ok, false) => match op {
                        Op::Sleep => want = true,
                        _ => want = false,
                    },
                    (o, f) => {
                        bad = Some(format!("{}/fault-outcome|fault fired: {f}, outcome {o:?}", op.name()));
                        break;
                    }
                }
                continue;
            }
            let op = action_op(a);
            let n_slp = rig.ctl.slp_events.len();
            let out = rig.apply(&op);
            if !out.is_ok() {
                bad = Some(format!("{}/outcome|{out:?}", op.name()));
                break;
            }
            match op {
                Op::Sleep => want = true,
                Op::Wake => want = false,
                _ => {}
            }
            let now = rig.bd.borrow().now_ns;
            if rig.ctl.slp_events.len() > n_slp {
                if i + 1 == hist.len() {
                    e1::flag();
                }
                let (_, t) = *rig.ctl.slp_events.last().unwrap();
                if now - t < 120_000_000 {
                    bad = Some(format!("{}/returned-too-early|the call returned {} us after the sleep command (< 120 ms)", op.name(), (now - t) / 1000));
                    break;
                }
            }
            if matches!(op, Op::Sleep | Op::Wake) {
                // one command per call; none at all is fine when the controller already is in the requested state
                // (a driver may skip a redundant sleep-in / sleep-out)
                let sent = rig.ctl.slp_events.len() - n_slp;
                if sent > 1 {
                    bad = Some(format!("{}/command-count|{sent} sleep commands were sent by one call", op.name()));
                    break;
                }
                if !diverged && rig.ctl.sleeping != want {
                    bad = Some(format!("{}/controller-state|the call returned Ok after sending {sent} sleep command(s) but the controller is {}", op.name(), if rig.ctl.sleeping { "asleep" } else { "awake" }));
                    break;
                }
            }
            if !matches!(op, Op::Sleep | Op::Wake) && rig.ctl.slp_events.len() != n_slp {
                bad = Some(format!("{}/unexpected-sleep-command|a non-sleep call sent a sleep-in/out command", op.name()));
                break;
            }
        }
        let d = rig.dut.as_ref().unwrap();
        if bad.is_none() {
            if d.is_sleeping() != want {
                bad = Some(format!("sleep-flag/history|is_sleeping() = {} but the last of init/sleep/wake says {}", d.is_sleeping(), want));
            } else if !diverged && rig.ctl.sleeping != want {
                bad = Some(format!("sleep-flag/controller|controller sleep state {} but is_sleeping() = {}", rig.ctl.sleeping, d.is_sleeping()));
            } else if !diverged {
                for w in rig.ctl.slp_events.windows(2) {
                    if w[1].1 - w[0].1 < 120_000_000 {
                        bad = Some(format!("spacing/too-close|commands {:02x} and {:02x} only {} us apart", w[0].0, w[1].0, (w[1].1 - w[0].1) / 1000));
                    }
                }
            }
        }
        let st = d.state();
        // pin levels are part of the implementation state (what the transport left on the wires)
        let lv = {
            let b = rig.bd.borrow();
            b.levels.iter().enumerate().fold(0u64, |acc, (i, l)| acc | (*l as u64) << i)
        };
        let key = vec![d.is_sleeping() as u64, rig.ctl.sleeping as u64, st.orient as u64, st.madctl as u64, st.sleeping as u64, diverged as u64, lv, hist.iter().filter(|a| **a >= 8).count() as u64];
        (key, bad)
    }
}

pub fn roots(_quick: bool) -> Vec<Cfg> {
    let mut v = Vec::new();
    for (i, info) in BUILTINS.iter().enumerate() {
        for tr in [Transport::RecSerial, Transport::RecPar8, Transport::RecPar16, Transport::Spi { len: 8 }, Transport::Par8, Transport::Par16] {
            if !info.supports[tr.kind_idx()] || (info.c666 && tr.bus16()) {
                continue;
            }
            v.push(Cfg { model: ModelId::Builtin(i as u8), tr, win: Some((6, 5, 1, 2)), orient: 0, bgr: false, invert: false, refresh: 0, rst: false, flags: 0 });
        }
    }
    v
}

fn run(ctx: &Ctx) -> Part {
    let t0 = Instant::now();
    let sys = Sys13 { roots: roots(ctx.quick()) };
    let n_roots = sys.roots.len();
    let mut acc = Acc::new();
    match e1::close_checked(sys.clone(), 16) {
        Err(e) => {
            eprintln!("MACHINERY: {e}");
            std::process::exit(2);
        }
        Ok(c) => {
            acc.states = c.unique_states;
            acc.transitions = c.transitions;
            acc.evaluations = c.transitions + n_roots as u64;
            acc.traces = acc.evaluations;
            acc.nontrivial = c.flagged;
            acc.count("roots", n_roots as u64);
            acc.count("max_depth", c.max_depth);
            acc.count("transitions_sending_sleep_commands", c.flagged);
            acc.sample(json!({"root": sys.roots[0], "history": ["Sleep", "Sleep", "Wake", "Clear"]}));
            if let Some((root, hist, msg)) = c.counterexample {
                let (sig, text) = msg.split_once('|').unwrap_or(("c13", &msg));
                acc.violation(Violation {
                    prop: ctx.prop.clone(),
                    sig: sig.to_string(),
                    msg: format!("{text} [shortest counterexample: {} call(s) after init]", hist.len()),
                    case: json!({"kind": "c13", "variant": ctx.variant, "cfg": sys.roots[root], "history": hist.iter().map(|a| if *a >= 8 { format!("{} with low-level operation {} failing", if a % 2 == 0 { "sleep" } else { "wake" }, (a - 8) / 2) } else { format!("{:?}", action_op(*a)) }).collect::<Vec<_>>(), "actions": hist}),
                });
            }
        }
    }
    // long runs (explicit horizon 1100 calls): the closure merges states that agree on everything observable, so a
    // counter hidden inside the driver (calls since the last wake, ...) needs repetition, not breadth.  Patterns:
    // sleep^n, wake^n, (sleep wake)^n, (sleep sleep wake)^n, (tearing sleep wake)^n - checked after every call.
    {
        let patterns: Vec<(&str, Vec<u32>)> = vec![("sleep*", vec![0]), ("wake*", vec![1]), ("(sleep wake)*", vec![0, 1]), ("(sleep sleep wake)*", vec![0, 0, 1]), ("(tearing sleep wake)*", vec![7, 0, 1]), ("(sleep clear wake wake)*", vec![0, 2, 1, 1])];
        let lroots: Vec<Cfg> = sys.roots.iter().filter(|c| matches!(c.model, ModelId::Builtin(0) | ModelId::Builtin(12))).cloned().collect();
        let jobs: Vec<(Cfg, usize)> = lroots.iter().flat_map(|c| (0..patterns.len()).map(move |p| (*c, p))).collect();
        use rayon::prelude::*;
        let a = jobs
            .par_iter()
            .fold(Acc::new, |mut acc, (cfg, pi)| {
                let (name, pat) = &patterns[*pi];
                let mut rig = Rig::new(cfg);
                if !rig.init.is_ok() {
                    return acc;
                }
                let mut want = false;
                for step in 0..1100usize {
                    let a = pat[step % pat.len()];
                    let op = action_op(a);
                    rig.reset_logs();
                    let n_slp = rig.ctl.slp_events.len();
                    let out = rig.apply(&op);
                    match op {
                        Op::Sleep => want = true,
                        Op::Wake => want = false,
                        _ => {}
                    }
                    acc.evaluations += 1;
                    acc.transitions += 1;
                    acc.count("long_run_calls", 1);
                    let d = rig.dut.as_ref().unwrap();
                    let now = rig.bd.borrow().now_ns;
                    let mut bad: Option<(String, String)> = None;
                    if !out.is_ok() {
                        bad = Some((format!("{}/outcome", op.name()), format!("{out:?}")));
                    } else if d.is_sleeping() != want {
                        bad = Some(("sleep-flag/history".into(), format!("is_sleeping() = {} but the last of init/sleep/wake says {want}", d.is_sleeping())));
                    } else if rig.ctl.sleeping != want {
                        bad = Some(("sleep-flag/controller".into(), format!("controller sleep state {} but is_sleeping() = {}", rig.ctl.sleeping, d.is_sleeping())));
                    } else if rig.ctl.slp_events.len() > n_slp && now - rig.ctl.slp_events.last().unwrap().1 < 120_000_000 {
                        bad = Some((format!("{}/returned-too-early", op.name()), "the call returned less than 120 ms after its sleep command".into()));
                    }
                    if let Some((sig, m)) = bad {
                        acc.violation(Violation {
                            prop: ctx.prop.clone(),
                            sig,
                            msg: format!("pattern {name}, call #{} ({:?}): {m}", step + 1, op),
                            case: json!({"kind": "c13", "variant": ctx.variant, "cfg": cfg, "actions": (0..=step).map(|s| pat[s % pat.len()]).collect::<Vec<u32>>()}),
                        });
                        break;
                    }
                }
                acc
            })
            .reduce(Acc::new, Acc::merge);
        let (st, tr) = (acc.states, acc.transitions);
        acc = acc.merge(a);
        acc.states = st;
        acc.transitions = tr;
        acc.traces = acc.evaluations;
    }
    let bounds = json!({"roots": n_roots, "actions": 8, "max_depth": 5, "long_runs": "6 patterns x 1100 calls"});
    let mut part = Part::new(ctx, acc, bounds, true, t0.elapsed().as_secs_f64());
    part.acc.n_outcomes = part.acc.states;
    part.require("transitions_sending_sleep_commands", 10);
    part
}

pub fn replay(case: &serde_json::Value) -> i32 {
    let cfg: Cfg = serde_json::from_value(case["cfg"].clone()).unwrap();
    let actions: Vec<u32> = serde_json::from_value(case["actions"].clone()).unwrap();
    let sys = Sys13 { roots: vec![cfg] };
    let (key, bad) = sys.exec(0, &actions);
    println!("history (action codes) {actions:?} -> key {key:?}");
    match bad {
        Some(m) => {
            println!("REPLAY: {m}");
            1
        }
        None => {
            println!("REPLAY: passes");
            0
        }
    }
}
