//! C20 - batching and buffering actually reduce bus overhead, never below correctness
use std::time::Instant;

use rayon::prelude::*;
use serde_json::json;

use super::common::*;
use super::Entry;
use super::{c01, c03, c04, c06};
use crate::dut::*;
use crate::report::*;
use crate::rig::*;
use crate::tr::TCall;

pub const ENTRY: Entry = Entry {
    id: "C20",
    variants: &["batch", "nobatch"],
    level: "model_checking",
    rule: "counting oracle on the decoded bus trace of the real driver. (1) every fill_solid / fill_contiguous / clear of the C01 and \
           C04 rectangle alphabets: at most one window set-up (CASET+RASET+RAMWR), exactly one when a pixel is written. (2) with \
           `batch`: draw_iter on every in-bounds stream of the C03 alphabets (all streams of length <= 4 on a 3x3 display; all words \
           of <= 3 run/block/pixel symbols crossing the capacities, also on rotated non-square displays; single calls with more than 65535 pixels) needs no more window set-ups than the sum over maximal \
           left-to-right runs of ceil(len / R), and never more than one per pixel, where the row capacity R is measured from the \
           driver's behaviour on one long run and must be >= 2. (3) the real SpiInterface sends a burst of b bytes in at most floor(b / \
           usable) + 1 transactions (usable = floor(L/N)*N) for every call of the C06 alphabet, alone and after every other pixel call over the same byte alphabet; (4) the same bound for every burst (pixel bytes after one memory-write-start) below the real Display on SPI - the in-bounds drawing alphabet, repeated same-colour fills, and fills of more than 65535 pixels on buffers holding a non-power-of-two number of pixels (counting mode). Only counts are observed, so any \
           re-chunking within the bounds is accepted. Non-trivial = streams with a run of >= 2 pixels / bursts longer than the buffer.",
    assumptions: &["without `batch` only the per-pixel bound applies to draw_iter"],
    run,
};

/// maximal left-to-right runs of an in-bounds stream: lengths
pub fn runs(px: &[(i32, i32, u32)]) -> Vec<u64> {
    let mut v = Vec::new();
    let mut i = 0;
    while i < px.len() {
        let mut j = i + 1;
        while j < px.len() && px[j].1 == px[j - 1].1 && px[j].0 == px[j - 1].0 + 1 {
            j += 1;
        }
        v.push((j - i) as u64);
        i = j;
    }
    v
}

fn check_stream(ctx: &Ctx, acc: &mut Acc, cfg: &Cfg, px: Pixels, r: u64) {
    acc.evaluations += 1;
    let pts = px.expand(cfg.c666());
    let rs = runs(&pts);
    if rs.iter().any(|l| *l >= 2) {
        acc.nontrivial += 1;
    }
    let op = Op::DrawIter(px);
    let mut rig = Rig::new(cfg);
    let out = rig.apply(&op);
    let n = rig.ctl.n_ramwr;
    let bound_runs: u64 = rs.iter().map(|l| l.div_ceil(r.max(1))).sum();
    let bound = if ctx.batch { bound_runs.min(pts.len() as u64) } else { pts.len() as u64 };
    let mut h = crate::util::Fnv::new();
    h.u64(n);
    h.u64(bound);
    acc.outcome(h.finish());
    if !out.is_ok() {
        return; // not this property's business (C02/C03)
    }
    if n > bound || rig.ctl.n_caset > bound || rig.ctl.n_raset > bound {
        acc.violation(Violation {
            prop: ctx.prop.clone(),
            sig: "draw_iter/too-many-window-setups".into(),
            msg: format!("{n} window set-ups for {} pixels in runs {rs:?}; bound {bound} (row capacity {r})", pts.len()),
            case: json!({"kind": "c20", "variant": ctx.variant, "cfg": cfg, "op": op, "r": r}),
        });
    }
}

fn check_fill(ctx: &Ctx, acc: &mut Acc, cfg: &Cfg, op: &Op) {
    acc.evaluations += 1;
    let mut rig = Rig::new(cfg);
    let out = rig.apply(op);
    if !out.is_ok() {
        return;
    }
    let wrote = rig.ctl.mem.writes > 0;
    let n = rig.ctl.n_ramwr;
    let ok = if wrote { n == 1 && rig.ctl.n_caset == 1 && rig.ctl.n_raset == 1 } else { n <= 1 && rig.ctl.n_caset <= 1 && rig.ctl.n_raset <= 1 };
    if wrote {
        acc.count("fills_that_wrote", 1);
    }
    if !ok {
        acc.violation(Violation {
            prop: ctx.prop.clone(),
            sig: format!("{}/window-setups", op.name()),
            msg: format!("{} CASET, {} RASET, {} RAMWR for one {} call (pixels written: {})", rig.ctl.n_caset, rig.ctl.n_raset, n, op.name(), wrote),
            case: json!({"kind": "c20", "variant": ctx.variant, "cfg": cfg, "op": op, "r": 0}),
        });
    }
}

fn run(ctx: &Ctx) -> Part {
    let t0 = Instant::now();
    let quick = ctx.quick();
    let (r, bk) = c03::measure_caps();
    let mut acc = Acc::new();
    acc.count("measured_row_capacity", r as u64);
    acc.count("measured_block_capacity", bk as u64);
    if ctx.batch && r < 2 {
        acc.violation(Violation {
            prop: ctx.prop.clone(),
            sig: "draw_iter/row-capacity".into(),
            msg: format!("a run of 130 adjacent pixels is sent in bursts of {r} pixel(s): horizontally adjacent pixels are not batched (capacity must be >= 2)"),
            case: json!({"kind": "c20", "variant": ctx.variant, "leg": "capacity"}),
        });
    }
    let r64 = r as u64;
    // (1) fills
    let cfgs = c04::small_cfgs(true);
    let a = cfgs
        .par_iter()
        .fold(Acc::new, |mut acc, cfg| {
            let (lw, lh) = cfg.geo().lsize();
            c04::for_each_rect(cfg, false, &mut |rect| {
                check_fill(ctx, &mut acc, cfg, &Op::FillSolid { r: rect, c: 5 });
                for len in [Some(rect.w as u64 * rect.h as u64), Some(1), None] {
                    check_fill(ctx, &mut acc, cfg, &Op::FillContiguous { r: rect, colors: Colors::Coded { base: 7, len } });
                }
            });
            check_fill(ctx, &mut acc, cfg, &Op::Clear { c: 9 });
            let _ = (lw, lh);
            acc.states += 1;
            acc
        })
        .reduce(Acc::new, Acc::merge);
    acc = acc.merge(a);
    // fills of more than 2^31 pixels on 65535-wide framebuffers (recording interface, symbolic memory)
    for o in [0u8, 3, 6] {
        for c666 in [false, true] {
            let cfg = Cfg::tiny(65535, 65535, c666, Transport::RecSerial, (65535, 65535, 0, 0), o);
            for op in [
                Op::Clear { c: 0x0000 },
                Op::Clear { c: 0x1234 },
                Op::FillSolid { r: Rect { x: 0, y: 0, w: 65535, h: 40000 }, c: 0xFFFF },
                Op::FillSolid { r: Rect { x: 5, y: 7, w: 40000, h: 40000 }, c: 0x00FF },
                Op::FillSolid { r: Rect { x: -5, y: -7, w: 70000, h: 70000 }, c: 0x0F0F },
            ] {
                check_fill(ctx, &mut acc, &cfg, &op);
                acc.count("giant_fills", 1);
            }
        }
    }
    // (2) draw_iter streams: fine scale (all streams of length <= 4 on 3x3), C01 alphabet, coarse words
    let fine = Cfg::tiny(3, 3, false, Transport::RecSerial, (3, 3, 0, 0), 0);
    let firsts: Vec<u32> = (0..9).collect();
    let maxlen = if quick { 4 } else { 5 };
    let a = firsts
        .par_iter()
        .fold(Acc::new, |mut acc, &f| {
            let pos = |p: u32| ((p % 3) as i32, (p / 3) as i32, 0x100 + p);
            check_stream(ctx, &mut acc, &fine, Pixels::List(vec![pos(f)]), r64);
            for extra in 1..maxlen {
                for k in 0..9u32.pow(extra) {
                    let mut v = vec![pos(f)];
                    let mut kk = k;
                    for _ in 0..extra {
                        v.push(pos(kk % 9));
                        kk /= 9;
                    }
                    check_stream(ctx, &mut acc, &fine, Pixels::List(v), r64);
                }
            }
            acc
        })
        .reduce(Acc::new, Acc::merge);
    acc = acc.merge(a);
    // one draw_iter call with more than 65535 in-bounds pixels (127 rasters of the 130x4 display; runs straddle every
    // multiple of 65535): counts that do not fit 16 bits must not cost extra window set-ups
    {
        let cfg = Cfg::tiny(130, 4, false, Transport::RecSerial, (130, 4, 0, 0), 0);
        for reps in [127usize, 253] {
            let syms: Vec<Sym> = (0..reps).map(|_| Sym::Block { x: 0, y: 0, w: 130, h: 4 }).collect();
            check_stream(ctx, &mut acc, &cfg, Pixels::Syms { syms, base: 0x0100 }, r64);
            acc.count("long_streams", 1);
        }
        let cfg = Cfg::tiny(3, 104, false, Transport::RecSerial, (3, 104, 0, 0), 1);
        let syms: Vec<Sym> = (0..215).map(|_| Sym::Block { x: 0, y: 0, w: 104, h: 3 }).collect();
        check_stream(ctx, &mut acc, &cfg, Pixels::Syms { syms, base: 0x0100 }, r64);
    }
    let coarse_cfgs = [
        (true, Cfg::tiny(130, 4, false, Transport::RecSerial, (130, 4, 0, 0), 0)),
        (false, Cfg::tiny(3, 104, false, Transport::RecSerial, (3, 104, 0, 0), 0)),
        // rotated: logical width larger than the panel's native width
        (true, Cfg::tiny(3, 104, false, Transport::RecSerial, (3, 104, 0, 0), 1)),
        (true, Cfg::tiny(3, 104, false, Transport::RecSerial, (3, 104, 0, 0), 7)),
        (false, Cfg::tiny(130, 4, false, Transport::RecSerial, (130, 4, 0, 0), 3)),
    ];
    for (wide, cfg) in coarse_cfgs {
        let (clw, clh) = cfg.geo().lsize();
        let syms = c03::coarse_symbols_for(r, bk, wide, clw, clh);
        let idx: Vec<usize> = (0..syms.len()).collect();
        let a = idx
            .par_iter()
            .fold(Acc::new, |mut acc, &i| {
                check_stream(ctx, &mut acc, &cfg, Pixels::Syms { syms: vec![syms[i]], base: 3 }, r64);
                for j in 0..syms.len() {
                    check_stream(ctx, &mut acc, &cfg, Pixels::Syms { syms: vec![syms[i], syms[j]], base: 3 }, r64);
                    if !quick || j % 4 == 0 {
                        for k in (0..syms.len()).step_by(if quick { 3 } else { 1 }) {
                            check_stream(ctx, &mut acc, &cfg, Pixels::Syms { syms: vec![syms[i], syms[j], syms[k]], base: 3 }, r64);
                        }
                    }
                }
                acc
            })
            .reduce(Acc::new, Acc::merge);
        acc = acc.merge(a);
        acc.states += 1;
    }
    // C01 draw_iter alphabet on a few small configurations (incl. real transports)
    for tr in [Transport::RecSerial, Transport::Par8, Transport::Spi { len: 5 }] {
        for o in [0u8, 3, 5] {
            let cfg = Cfg::tiny(4, 3, false, tr, (3, 2, 1, 1), o);
            let (lw, lh) = cfg.geo().lsize();
            for op in c01::alphabet(lw, lh, true) {
                match op {
                    Op::DrawIter(px) => check_stream(ctx, &mut acc, &cfg, px, r64),
                    Op::FillSolid { .. } | Op::FillContiguous { .. } | Op::Clear { .. } => check_fill(ctx, &mut acc, &cfg, &op),
                    _ => {}
                }
            }
            acc.states += 1;
        }
    }
    // (3) SPI transactions per burst
    if ctx.batch {
        let mut jobs = Vec::new();
        for n in [2usize, 3] {
            let mut ls: Vec<usize> = (n..=4 * n + 1).collect();
            ls.extend_from_slice(&[16, 31, 64]);
            for l in ls {
                jobs.push((n, l));
            }
        }
        let a = jobs
            .par_iter()
            .fold(Acc::new, |mut acc, &(n, l)| {
                let usable = ((l / n) * n) as u64;
                let calls: Vec<TCall> = c06::alphabet(n, l, 0).into_iter().filter(|c| !matches!(c, TCall::Cmd { .. })).collect();
                // single calls and every ordered pair over ONE byte alphabet (a small fill followed by a
                // larger fill of the same colour, a stream followed by a fill, ...): bound on the last call
                let mut hists: Vec<Vec<TCall>> = calls.iter().map(|c| vec![c.clone()]).collect();
                for a in &calls {
                    for b in &calls {
                        hists.push(vec![a.clone(), b.clone()]);
                    }
                }
                for hist in hists {
                    let call = hist.last().unwrap().clone();
                    acc.evaluations += 1;
                    let o = c06::run_history(n, l, &hist);
                    if o.fail.is_some() {
                        continue; // C06's business
                    }
                    let b = *o.bytes.last().unwrap();
                    let tx = *o.txns.last().unwrap();
                    if b > usable {
                        acc.nontrivial += 1;
                    }
                    if tx > b / usable + 1 {
                        acc.violation(Violation {
                            prop: ctx.prop.clone(),
                            sig: "spi/too-many-transactions".into(),
                            msg: format!("{tx} SPI transactions for a burst of {b} bytes with a {l}-byte buffer (usable {usable}); bound {}", b / usable + 1),
                            case: json!({"kind": "c06", "variant": ctx.variant, "n": n, "len": l, "history": hist}),
                        });
                    }
                    acc.count("spi_bursts", 1);
                }
                acc
            })
            .reduce(Acc::new, Acc::merge);
        acc = acc.merge(a);
    }
    // (4) the same bound observed below the real Display (the pixel-format layer and Display sit between the caller
    // and the transport): every burst = the pixel bytes following one memory-write-start command
    if ctx.batch {
        let mut djobs: Vec<Cfg> = Vec::new();
        for (c666, len) in [(false, 2u16), (false, 5), (false, 8), (true, 3), (true, 7), (true, 64)] {
            for o in [0u8, 3] {
                djobs.push(Cfg::tiny(8, 6, c666, Transport::Spi { len }, (4, 3, 2, 1), o));
            }
        }
        let a = djobs
            .par_iter()
            .fold(Acc::new, |mut acc, cfg| {
                let (lw, lh) = cfg.geo().lsize();
                let Transport::Spi { len } = cfg.tr else { unreachable!() };
                let n = if cfg.c666() { 3u64 } else { 2 };
                let usable = (len as u64 / n) * n;
                let mut rig = Rig::new(cfg);
                let mut ops = c01::alphabet(lw, lh, false);
                ops.push(Op::Clear { c: 0x0F0F });
                ops.push(Op::FillSolid { r: Rect { x: 0, y: 0, w: lw, h: lh }, c: 0x0F0F });
                ops.push(Op::FillSolid { r: Rect { x: 0, y: 0, w: 2, h: 1 }, c: 0x0F0F });
                ops.push(Op::Clear { c: 0x0F0F });
                for op in &ops {
                    let ev0 = rig.bd.borrow().evs.len();
                    if !rig.apply(op).is_ok() {
                        continue;
                    }
                    acc.evaluations += 1;
                    let b = rig.bd.borrow();
                    let mut burst: Option<(u64, u64)> = None;
                    let mut bursts: Vec<(u64, u64)> = Vec::new();
                    // the (empty) parameter write of the memory-write-start command is not part of the burst
                    let mut just_started = false;
                    for e in &b.evs[ev0..] {
                        if matches!(e, crate::env::Ev::Pin { .. }) {
                            continue;
                        }
                        let js = just_started;
                        just_started = false;
                        match *e {
                            crate::env::Ev::SpiWrite { dc: false, ok: true, off, len, .. } => {
                                if let Some(x) = burst.take() {
                                    bursts.push(x);
                                }
                                if len == 1 && b.bytes[off as usize] == 0x2C {
                                    burst = Some((0, 0));
                                    just_started = true;
                                }
                            }
                            crate::env::Ev::SpiWrite { dc: true, ok: true, len: 0, first: true, .. } if js => {}
                            crate::env::Ev::SpiWrite { dc: true, ok: true, len, first, .. } => {
                                if let Some(x) = burst.as_mut() {
                                    x.0 += len as u64;
                                    if first {
                                        x.1 += 1;
                                    }
                                }
                            }
                            crate::env::Ev::SpiEmptyTxn { .. } => {
                                if let Some(x) = burst.as_mut() {
                                    x.1 += 1;
                                }
                            }
                            _ => {}
                        }
                    }
                    if let Some(x) = burst.take() {
                        bursts.push(x);
                    }
                    for (bytes, tx) in bursts {
                        acc.count("display_spi_bursts", 1);
                        if bytes > usable {
                            acc.nontrivial += 1;
                        }
                        if tx > bytes / usable + 1 {
                            acc.violation(Violation {
                                prop: ctx.prop.clone(),
                                sig: "spi/too-many-transactions/display".into(),
                                msg: format!("{op:?} on {:?}: {tx} SPI transactions for a burst of {bytes} bytes (usable buffer {usable}); bound {}", cfg.tr, bytes / usable + 1),
                                case: json!({"kind": "c20", "variant": ctx.variant, "cfg": cfg, "op": op, "r": 0}),
                            });
                        }
                    }
                }
                acc
            })
            .reduce(Acc::new, Acc::merge);
        acc = acc.merge(a);
        // fills of more than 65535 pixels (counts that do not fit 16 bits) on buffers that hold a non-power-of-two
        // number of pixels, in counting mode
        let big: Vec<(bool, u32, u32, u32, u16)> = vec![
            (true, 35000, 2, 0x15A5A, 512),
            (true, 65535, 3, 0x00000, 64),
            (true, 480, 320, 0x3F000, 512),
            (false, 65535, 2, 0x1234, 15),
            (false, 40000, 5, 0xFFFF, 33),
            (false, 320, 480, 0x0000, 64),
        ];
        for &(c666, w, h, colour, len) in &big {
            acc.evaluations += 1;
            acc.nontrivial += 1;
            let (f, bytes, tx) = c06::display_extreme(c666, w, h, colour, len);
            acc.count("display_spi_big_fills", 1);
            let n = if c666 { 3u64 } else { 2 };
            let usable = (len as u64 / n) * n;
            if f.is_none() && tx > bytes / usable + 1 {
                acc.violation(Violation {
                    prop: ctx.prop.clone(),
                    sig: "spi/too-many-transactions/display".into(),
                    msg: format!("{} fill_solid of {w}x{h} pixels over SpiInterface({len}): {tx} SPI transactions for {bytes} bytes (usable buffer {usable}); bound {}", if c666 { "Rgb666" } else { "Rgb565" }, bytes / usable + 1),
                    case: json!({"kind": "c06d", "variant": ctx.variant, "c666": c666, "w": w, "h": h, "colour": colour, "len": len}),
                });
            }
        }
    }
    acc.transitions = acc.evaluations;
    acc.traces = acc.evaluations;
    acc.sample(json!({"display": "130x4", "stream": "run of 101 pixels from (1,0)", "bound": "ceil(101/R) window set-ups"}));
    acc.sample(json!({"spi": {"N": 2, "L": 5}, "call": "send_pixels(7 pixels)", "bound": "floor(14/4)+1 = 4 transactions"}));
    let bounds = json!({"row_capacity_measured": r, "block_capacity_measured": bk, "fine_stream_length": maxlen, "fill_configs": cfgs.len()});
    let mut part = Part::new(ctx, acc, bounds, true, t0.elapsed().as_secs_f64());
    part.require("fills_that_wrote", 100);
    if ctx.batch {
        part.require("spi_bursts", 100);
    }
    part
}

pub fn replay(case: &serde_json::Value) -> i32 {
    if case["leg"] == "capacity" {
        println!("measured capacities (row, block): {:?}", c03::measure_caps());
        return 0;
    }
    let cfg: Cfg = serde_json::from_value(case["cfg"].clone()).unwrap();
    let op: Op = serde_json::from_value(case["op"].clone()).unwrap();
    let mut rig = Rig::new(&cfg);
    rig.ctl.keep_cmds = true;
    let out = rig.apply(&op);
    println!("{op:?} -> {out:?}: {} CASET, {} RASET, {} RAMWR", rig.ctl.n_caset, rig.ctl.n_raset, rig.ctl.n_ramwr);
    for c in &rig.ctl.cmds {
        println!("  cmd {:02x} {:02x?} pixels {}", c.op, c.params, c.pixels);
    }
    let _ = window_configs;
    0
}
