//! C10 - after set_orientation the display behaves as if built with that orientation
use std::time::Instant;

use serde_json::json;

use super::common::*;
use super::Entry;
use crate::dut::*;
use crate::e1::{self, Sys};
use crate::report::*;
use crate::rig::*;
use crate::spec::{madctl_spec, Canvas, Geo};

pub const ENTRY: Entry = Entry {
    id: "C10",
    variants: &["batch", "nobatch"],
    level: "model_checking",
    rule: "explicit-state closure (stateright BFS, 1 and 16 threads compared): roots = non-square windows with asymmetric offsets (also zero offsets with a window smaller than the framebuffer) x 8 initial orientations x 2 colour orders x 4 refresh orders on the external model, plus every built-in model \
           with non-default colour/refresh order (both `batch` settings); actions = set_orientation(o) for all 8 values; \
           every transition replays the history on a fresh real display. State key = private driver state (hook) + device MADCTL. \
           Invariants in every state: orientation()/size()/bounding_box() agree with the last orientation set; device MADCTL == \
           specification encoding with colour/refresh bits preserved; private state == that of a freshly built twin with that \
           orientation; a probe drawing program (corners, clipped fills, clear, mixed in/out draw_iter) produces the same command \
           trace as on the twin and controller memory == canvas. Second leg (E2): every program of length 3 interleaving the 8 \
           orientation changes with 5 drawing calls on one display, step-refined against the canvas. Non-trivial = states reached by at least one set_orientation.",
    assumptions: &["reference controller + canvas", "equality of the complete private state with the twin transfers C01/C02 to all later drawing (DESIGN 2.6)"],
    run,
};

#[derive(Clone)]
struct Sys10 {
    roots: Vec<Cfg>,
}

pub fn probe_program(lw: u32, lh: u32) -> Vec<Op> {
    let (mx, my) = (lw as i32 - 1, lh as i32 - 1);
    vec![
        Op::Clear { c: 0x0007 },
        Op::SetPixel { x: 0, y: 0, c: 0x0101 },
        Op::SetPixel { x: mx as u16, y: 0, c: 0x0102 },
        Op::SetPixel { x: 0, y: my as u16, c: 0x0103 },
        Op::SetPixel { x: mx as u16, y: my as u16, c: 0x0104 },
        Op::FillSolid { r: Rect { x: -1, y: -1, w: 3, h: 3 }, c: 0x0201 },
        Op::FillContiguous { r: Rect { x: mx - 1, y: my - 1, w: 4, h: 4 }, colors: Colors::Coded { base: 0x0300, len: None } },
        Op::DrawIter(Pixels::List(vec![(0, my, 0x0401), (lw as i32, 0, 0x0402), (mx, 0, 0x0403), (0, lh as i32, 0x0404)])),
        Op::DrawIter(Pixels::Syms { syms: vec![Sym::Block { x: 0, y: 0, w: lw, h: lh }], base: 0x0500 }),
        Op::FillSolid { r: Rect { x: mx, y: 0, w: 5, h: lh + 3 }, c: 0x0601 },
    ]
}

impl Sys10 {
    fn history_ops(&self, hist: &[u32]) -> Vec<Op> {
        hist.iter().map(|&o| Op::SetOrientation(o as u8)).collect()
    }
}

impl Sys for Sys10 {
    fn roots(&self) -> usize {
        self.roots.len()
    }
    fn actions(&self, _root: usize) -> Vec<u32> {
        (0..8).collect()
    }
    fn max_depth(&self) -> usize {
        4
    }
    fn exec(&self, root: usize, hist: &[u32]) -> (Vec<u64>, Option<String>) {
        let cfg = self.roots[root];
        let mut rig = Rig::new(&cfg);
        if !rig.init.is_ok() {
            return (vec![0], Some(format!("init/failed|{:?}", rig.init)));
        }
        for &o in hist {
            let out = rig.apply(&Op::SetOrientation(o as u8));
            if !out.is_ok() {
                return (vec![1], Some(format!("set_orientation/outcome|{out:?}")));
            }
        }
        let o = hist.last().map(|x| *x as u8).unwrap_or(cfg.orient);
        let st = rig.dut.as_ref().unwrap().state();
        let key = vec![
            st.orient as u64,
            st.madctl as u64,
            rig.ctl.madctl as u64,
            st.sleeping as u64,
            (st.w as u64) << 48 | (st.h as u64) << 32 | (st.ox as u64) << 16 | st.oy as u64,
            st.bgr as u64 | (st.refresh as u64) << 1 | (st.invert as u64) << 3,
            {
                let b = rig.bd.borrow();
                b.levels.iter().enumerate().fold(0u64, |acc, (i, l)| acc | (*l as u64) << i)
            },
        ];
        let geo = Geo { orient: o, ..cfg.geo() };
        let (lw, lh) = geo.lsize();
        let d = rig.dut.as_ref().unwrap();
        if d.orientation() != o {
            return (key, Some(format!("set_orientation/orientation-not-stored|orientation() = {} after the last set_orientation({o})", d.orientation())));
        }
        if d.size() != (lw, lh) || d.bbox() != (0, 0, lw, lh) {
            return (key, Some(format!("set_orientation/size|size()={:?} bbox={:?}, specification {lw}x{lh}", d.size(), d.bbox())));
        }
        if cfg.model == ModelId::Fixed43 {
            // hard-wired panel: init programmed 0x00 whatever the options; set_orientation may only touch bits 7..5
            let want = madctl_spec(false, o, 0);
            // a driver may skip the command when the requested orientation is the one it already holds: the device
            // then keeps what it had (0x00 from init as long as no call changed the orientation)
            let mut ok_vals = vec![0x00u8];
            let mut cur = cfg.orient;
            for &h in hist {
                let h = h as u8;
                if h != cur {
                    ok_vals.clear();
                    cur = h;
                }
                ok_vals.push(madctl_spec(false, h, 0));
            }
            if !hist.is_empty() && !ok_vals.contains(&rig.ctl.madctl) {
                return (key, Some(format!(
                    "set_orientation/foreign-bits|model programmed MADCTL 00 at init; after set_orientation({o}) the device has {:02x}, only the orientation bits may change (expected {want:02x})",
                    rig.ctl.madctl
                )));
            }
            return (key, None);
        }
        let want = madctl_spec(cfg.bgr, o, cfg.refresh);
        if rig.ctl.madctl != want {
            return (key, Some(format!("set_orientation/madctl|device MADCTL {:02x}, specification {want:02x} (colour/refresh bits must be preserved)", rig.ctl.madctl)));
        }
        // twin: freshly built with the last orientation
        let tcfg = Cfg { orient: o, ..cfg };
        let mut twin = Rig::new(&tcfg);
        let tst = twin.dut.as_ref().unwrap().state();
        if tst != st {
            return (key, Some(format!("set_orientation/state-differs-from-twin|driver state {st:?}, freshly built twin {tst:?}")));
        }
        // probe program on both
        rig.ctl.keep_cmds = true;
        twin.ctl.keep_cmds = true;
        let c0 = rig.ctl.cmds.len();
        let t0 = twin.ctl.cmds.len();
        let mut canvas = Canvas::new(geo);
        for op in probe_program(lw, lh) {
            let a = rig.apply(&op);
            let b = twin.apply(&op);
            spec_apply(&mut canvas, &op, cfg.c666());
            if a != b || !a.is_ok() {
                return (key, Some(format!("{}/probe-outcome|after set_orientation: {a:?}, on the twin: {b:?}", op.name())));
            }
            if !rig.ctl.viols.is_empty() {
                return (key, Some(format!("{}/probe-protocol|{:?}", op.name(), rig.ctl.viols[0])));
            }
            if let Some(dif) = rig.ctl.mem.first_diff(&canvas.mem) {
                return (key, Some(format!("{}/probe-memory|cell {:?} differs from the canvas after set_orientation", op.name(), dif)));
            }
        }
        if rig.ctl.cmds[c0..] != twin.ctl.cmds[t0..] {
            return (key, Some("probe/trace-differs-from-twin|the probe program's bus traffic differs from the twin's".into()));
        }
        (key, None)
    }
}

pub fn roots(quick: bool) -> Vec<Cfg> {
    let shapes: Vec<(u16, u16, Vec<(u16, u16, u16, u16)>)> = if quick {
        // (also windows smaller than the framebuffer that start at its origin: the margins are asymmetric although the offset is zero)
        vec![(4, 3, vec![(2, 1, 1, 2), (3, 2, 1, 0), (2, 2, 0, 0)]), (3, 5, vec![(2, 3, 0, 2), (1, 4, 2, 0), (2, 3, 0, 0)]), (2, 2, vec![(1, 2, 1, 0), (2, 2, 0, 0)])]
    } else {
        vec![
            (4, 3, vec![(2, 1, 1, 2), (3, 2, 1, 0), (4, 3, 0, 0), (1, 3, 3, 0), (2, 2, 0, 0), (3, 3, 0, 0)]),
            (3, 5, vec![(2, 3, 0, 2), (1, 4, 2, 0), (3, 5, 0, 0), (2, 3, 0, 0), (3, 2, 0, 0)]),
            (2, 2, vec![(1, 2, 1, 0), (2, 2, 0, 0), (1, 1, 1, 1)]),
            (5, 4, vec![(2, 3, 3, 1), (4, 1, 0, 2)]),
            (8, 6, vec![(4, 3, 2, 1), (5, 2, 3, 4)]),
            (1, 3, vec![(1, 2, 0, 1)]),
        ]
    };
    let mut v = Vec::new();
    for (fw, fh, wins) in shapes {
        for win in wins {
            for o in 0..8u8 {
                for bgr in [false, true] {
                    for refresh in 0..4u8 {
                        for tr in [Transport::RecSerial] {
                            let mut c = Cfg::tiny(fw, fh, false, tr, win, o);
                            c.bgr = bgr;
                            c.refresh = refresh;
                            v.push(c);
                        }
                    }
                }
            }
        }
    }
    // real transports and Rgb666 representatives
    for tr in [Transport::Par8, Transport::Spi { len: 5 }, Transport::Par16] {
        let mut c = Cfg::tiny(4, 3, false, tr, (2, 1, 1, 2), 3);
        c.bgr = true;
        c.refresh = 2;
        v.push(c);
    }
    let mut c = Cfg::tiny(4, 3, true, Transport::RecSerial, (3, 2, 1, 0), 6);
    c.refresh = 1;
    v.push(c);
    // an external model that legitimately returns the all-zero address mode, with non-default builder options
    for (o, bgr, refresh) in [(0u8, true, 3u8), (3, true, 1), (6, false, 2)] {
        v.push(Cfg { model: ModelId::Fixed43, tr: Transport::RecSerial, win: Some((3, 2, 1, 0)), orient: o, bgr, invert: false, refresh, rst: false, flags: 0 });
    }
    // every built-in model (its own init decides the cached address mode), non-default colour / refresh order
    for (i, info) in BUILTINS.iter().enumerate() {
        let (fw, fh) = info.fb;
        let tr = if info.supports[0] { Transport::RecSerial } else { Transport::RecPar8 };
        for (o, refresh) in [(0u8, 1u8), (5, 2), (2, 3)] {
            v.push(Cfg { model: ModelId::Builtin(i as u8), tr, win: Some((6, 5, fw - 9, 3)), orient: o, bgr: true, invert: false, refresh, rst: false, flags: 0 });
            if o == 0 {
                // the common "smaller panel at the framebuffer origin" wiring (e.g. 240x240 glass on a 240x320 controller)
                v.push(Cfg { model: ModelId::Builtin(i as u8), tr, win: Some((6, 5, 0, 0)), orient: o, bgr: false, invert: false, refresh: 0, rst: false, flags: 0 });
            }
        }
    }
    v
}

fn run(ctx: &Ctx) -> Part {
    let t0 = Instant::now();
    let sys = Sys10 { roots: roots(ctx.quick()) };
    let n_roots = sys.roots.len();
    let mut acc = Acc::new();
    match e1::close_checked(sys.clone(), 16) {
        Err(e) => {
            eprintln!("MACHINERY: {e}");
            std::process::exit(2);
        }
        Ok(c) => {
            acc.states = c.unique_states;
            acc.transitions = c.transitions;
            acc.evaluations = c.transitions + n_roots as u64;
            acc.traces = c.transitions + n_roots as u64;
            acc.nontrivial = c.unique_states.saturating_sub(n_roots as u64);
            acc.n_outcomes = c.unique_states;
            acc.count("roots", n_roots as u64);
            acc.count("max_depth", c.max_depth);
            acc.count("generated_states", c.generated_states);
            acc.sample(json!({"root": sys.roots[n_roots / 2], "history": [{"SetOrientation": 3}, {"SetOrientation": 6}], "then": "probe program"}));
            if let Some((root, hist, msg)) = c.counterexample {
                let (sig, text) = msg.split_once('|').unwrap_or(("c10", &msg));
                let cfg = sys.roots[root];
                let o = hist.last().map(|x| *x as u8).unwrap_or(cfg.orient);
                let (lw, lh) = Geo { orient: o, ..cfg.geo() }.lsize();
                let mut ops = sys.history_ops(&hist);
                ops.extend(probe_program(lw, lh));
                acc.violation(Violation {
                    prop: ctx.prop.clone(),
                    sig: sig.to_string(),
                    msg: format!("{text} [shortest counterexample: {} set_orientation call(s)]", hist.len()),
                    case: case_json(ctx, &cfg, &ops, "all"),
                });
            }
        }
    }
    // ---- leg 2: all programs of length <= 3 that interleave orientation changes with drawing, on one
    // display, checked step by step against the canvas (memory persists across the orientation change)
    if acc.viols.is_empty() {
        use rayon::prelude::*;
        let cfgs: Vec<Cfg> = {
            let mut v = Vec::new();
            for (fw, fh, win) in [(4u16, 3u16, (2u16, 1u16, 1u16, 2u16)), (3, 5, (2, 3, 0, 2)), (4, 3, (3, 2, 1, 0))] {
                for o in [0u8, 3, 5, 6] {
                    for tr in [Transport::RecSerial, Transport::Par8] {
                        if matches!(tr, Transport::Par8) && o != 3 {
                            continue;
                        }
                        let mut c = Cfg::tiny(fw, fh, false, tr, win, o);
                        c.bgr = o % 2 == 1;
                        c.refresh = o % 4;
                        v.push(c);
                    }
                }
            }
            v
        };
        let a2 = cfgs
            .par_iter()
            .fold(Acc::new, |mut acc, cfg| {
                let mut alpha: Vec<Op> = (0..8).map(Op::SetOrientation).collect();
                alpha.push(Op::Clear { c: 0x0003 });
                alpha.push(Op::SetPixel { x: 0, y: 0, c: 0x0111 });
                alpha.push(Op::FillSolid { r: Rect { x: -1, y: 0, w: 3, h: 9 }, c: 0x0222 });
                alpha.push(Op::DrawIter(Pixels::List(vec![(0, 0, 0x0331), (1, 0, 0x0332), (9, 9, 0x0333), (0, 1, 0x0334)])));
                alpha.push(Op::FillContiguous { r: Rect { x: 0, y: -1, w: 2, h: 3 }, colors: Colors::Coded { base: 0x0400, len: None } });
                let fourth: Vec<Option<Op>> = if ctx.quick() { vec![None] } else { std::iter::once(None).chain(alpha.iter().cloned().map(Some)).collect() };
                for a in &alpha {
                    for b in &alpha {
                        for c in &alpha {
                          for d4 in &fourth {
                            let mut hist = vec![a.clone(), b.clone(), c.clone()];
                            if let Some(d) = d4 {
                                hist.push(d.clone());
                            }
                            // set_pixel(0,0) is in range under every orientation of these windows
                            acc.evaluations += 1;
                            acc.transitions += hist.len() as u64;
                            acc.traces += 1;
                            match check_history(cfg, &hist, &Checks::ALL) {
                                Ok(run) => {
                                    acc.states += (run.state_keys.iter().collect::<std::collections::BTreeSet<_>>().len() as u64).min(1);
                                }
                                Err((f, _)) => acc.violation(violation(ctx, cfg, &hist, "all", &f)),
                            }
                            acc.count("mixed_programs", 1);
                          }
                        }
                    }
                }
                acc
            })
            .reduce(Acc::new, Acc::merge);
        let st = acc.states;
        acc = acc.merge(a2);
        acc.states = st; // the closure's state count stays the reported one
    }
    let bounds = json!({"roots": n_roots, "actions": 8, "max_depth": 4, "engine": "stateright 0.31 BFS, 1 thread and 16 threads compared",
        "mixed_programs": "all programs of length 3 over {set_orientation x8, clear, set_pixel, clipped fill_solid, mixed in/out draw_iter, clipped fill_contiguous} on 15 configurations"});
    let mut part = Part::new(ctx, acc, bounds, true, t0.elapsed().as_secs_f64());
    part.acc.n_outcomes = part.acc.states;
    part
}
