//! C02 - out-of-bounds drawing is discarded: no panic, no write outside the panel window
use std::time::Instant;

use rayon::prelude::*;
use serde_json::json;

use super::common::*;
use super::Entry;
use crate::dut::*;
use crate::report::*;
use crate::rig::*;

pub const ENTRY: Entry = Entry {
    id: "C02",
    variants: &["batch", "nobatch", "wrap", "nobatch-wrap"],
    level: "model_checking",
    rule: "odometer over a boundary lattice of i32 coordinates per axis (i32 extremes, +-65536 neighbourhood, 0, size-1, size, size+1, \
           framebuffer edge, 32767/32768, 65534..65537, aliases of in-bounds columns) : draw_iter streams of length 1, 2 and in/out/in \
           triples (thorough: all triples over a reduced lattice), fill_solid/fill_contiguous/clear over top_left in lattice^2 x size \
           lattice^2 restricted to valid embedded-graphics rectangles; on windows with non-trivial offsets inside larger framebuffers, \
           all 8 orientations (set at init, changed at run time before the call, and after a set_orientation whose k-th low-level operation failed - every k, recording and real transports - judged against the orientation the display then reports), both `batch` settings, checked and wrapping arithmetic builds. Oracle per case: no panic, terminates, Ok, \
           no protocol violation, controller memory == canvas that drops out-of-bounds points (catches aliasing), and a differential \
           twin fed only the in-bounds items. Non-trivial = at least one out-of-bounds item or clipped rectangle.",
    assumptions: &[
        "reference controller + canvas specification",
        "rectangles that embedded-graphics itself cannot represent (top_left+size overflow, >= 2^32 points) are not generated",
        "fill_contiguous cases whose visible part exceeds 2^12 (quick) / 2^17 (thorough) pixels are skipped on 65535-wide displays (cost), counted in 'skipped_large'",
    ],
    run,
};

/// boundary lattice along one axis: logical extent `l`, framebuffer extent along that axis `f`
pub fn lattice(l: u32, f: u32, full: bool) -> Vec<i32> {
    let l = l as i64;
    let f = f as i64;
    let mut v: Vec<i64> = vec![-1, 0, 1, l - 1, l, l + 1, f - 1, f, 65535, 65536, 65536 + (l - 1), i32::MIN as i64, i32::MAX as i64];
    if full {
        v.extend_from_slice(&[
            i32::MIN as i64 + 1,
            -65537,
            -65536,
            -65535,
            -2,
            32767,
            32768,
            65534,
            65537,
            65536 + l,
            i32::MAX as i64 - 1,
            l / 2,
        ]);
    }
    v.retain(|x| *x >= i32::MIN as i64 && *x <= i32::MAX as i64);
    v.sort_unstable();
    v.dedup();
    v.into_iter().map(|x| x as i32).collect()
}

pub fn size_lattice(l: u32) -> Vec<u32> {
    let mut v = vec![0, 1, 2, l, l + 1, 65535, 65536, (1u32 << 31) - 1];
    v.sort_unstable();
    v.dedup();
    v
}

pub fn configs(quick: bool) -> Vec<Cfg> {
    let mut v = Vec::new();
    let small: Vec<(u16, u16, (u16, u16, u16, u16))> = vec![
        (8, 6, (4, 3, 2, 1)),
        (8, 6, (3, 4, 5, 0)),
        (4, 3, (4, 3, 0, 0)),
        (4, 3, (2, 2, 1, 1)),
        (1, 1, (1, 1, 0, 0)),
        (3, 5, (2, 3, 0, 2)),
    ];
    for (fw, fh, win) in small {
        for o in 0..8u8 {
            v.push(Cfg::tiny(fw, fh, false, Transport::RecSerial, win, o));
        }
    }
    // a Rgb666 / 16-bit-bus representative
    v.push(Cfg::tiny(4, 3, true, Transport::RecSerial, (2, 2, 1, 1), 3));
    v.push(Cfg::tiny(4, 3, false, Transport::RecPar16, (2, 2, 1, 1), 5));
    // extreme framebuffers: y = 65535 and x+offset overflow live here
    let os: &[u8] = if quick { &[0, 1, 6] } else { &[0, 1, 2, 3, 4, 5, 6, 7] };
    for &o in os {
        v.push(Cfg::tiny(65535, 65535, false, Transport::RecSerial, (65535, 65535, 0, 0), o));
        v.push(Cfg::tiny(65535, 65535, false, Transport::RecSerial, (300, 200, 65000, 65300), o));
        v.push(Cfg::tiny(65535, 1, false, Transport::RecSerial, (65535, 1, 0, 0), o));
        v.push(Cfg::tiny(1, 65535, false, Transport::RecSerial, (1, 65530, 0, 5), o));
    }
    v
}

#[derive(Clone, Copy, PartialEq, Eq, Debug)]
pub enum Part2 {
    Singles,
    Pairs,
    Triples,
    Rects,
}

/// enumerate the C02 alphabet for one configuration, calling `f` for each operation
pub fn for_each_op(cfg: &Cfg, quick: bool, f: &mut dyn FnMut(Op, Part2)) {
    let geo = cfg.geo();
    let (lw, lh) = geo.lsize();
    // framebuffer extent along the logical axes
    let (ffw, ffh) = if geo.rot() % 2 == 0 { (geo.fw as u32, geo.fh as u32) } else { (geo.fh as u32, geo.fw as u32) };
    let big = geo.fw == 65535 || geo.fh == 65535;
    let xs = lattice(lw, ffw, true);
    let ys = lattice(lh, ffh, true);
    let xs_r = lattice(lw, ffw, false);
    let ys_r = lattice(lh, ffh, false);
    let c1 = 0x0A0B;
    let c2 = 0x0C0D;
    // singles (two colours)
    for &y in &ys {
        for &x in &xs {
            f(Op::DrawIter(Pixels::List(vec![(x, y, c1)])), Part2::Singles);
            f(Op::DrawIter(Pixels::List(vec![(x, y, c2)])), Part2::Singles);
        }
    }
    // pairs: reduced lattice in quick, and always on the big displays
    let (pxs, pys) = if quick || big { (&xs_r, &ys_r) } else { (&xs, &ys) };
    for &y1 in pys.iter() {
        for &x1 in pxs.iter() {
            for &y2 in pys.iter() {
                for &x2 in pxs.iter() {
                    f(Op::DrawIter(Pixels::List(vec![(x1, y1, c1), (x2, y2, c2)])), Part2::Pairs);
                }
            }
        }
    }
    // in, out, in triples: in-bounds points from a small set, out from the full lattice
    let ins: Vec<(i32, i32)> = {
        let mut v = vec![(0, 0), (lw as i32 - 1, lh as i32 - 1), (lw as i32 / 2, 0), (0, lh as i32 - 1)];
        v.sort_unstable();
        v.dedup();
        v
    };
    for &(ax, ay) in &ins {
        for &(bx, by) in &ins {
            for &y in &ys {
                for &x in &xs {
                    if geo.in_bounds(x as i64, y as i64) {
                        continue;
                    }
                    f(Op::DrawIter(Pixels::List(vec![(ax, ay, c1), (x, y, 0x0E0F), (bx, by, c2)])), Part2::Triples);
                }
            }
        }
    }
    if !quick && !big {
        // all triples over the reduced lattice
        let pts: Vec<(i32, i32)> = ys_r.iter().flat_map(|&y| xs_r.iter().map(move |&x| (x, y))).collect();
        // keep it tractable: third point from the in-bounds set and lattice corners
        for &a in &pts {
            for &b in &pts {
                for &c in &ins {
                    f(Op::DrawIter(Pixels::List(vec![(a.0, a.1, c1), (b.0, b.1, c2), (c.0, c.1, 0x0102)])), Part2::Triples);
                }
            }
        }
    }
    // rectangles
    let ws = size_lattice(lw);
    let hs = size_lattice(lh);
    let (rxs, rys) = if quick { (&xs_r, &ys_r) } else { (&xs, &ys) };
    for &y in rys.iter() {
        for &x in rxs.iter() {
            for &h in &hs {
                for &w in &ws {
                    let r = Rect { x, y, w, h };
                    if !r.valid() {
                        continue;
                    }
                    f(Op::FillSolid { r, c: c1 }, Part2::Rects);
                    f(Op::FillContiguous { r, colors: Colors::Coded { base: 0x0100, len: None } }, Part2::Rects);
                    f(Op::FillContiguous { r, colors: Colors::Coded { base: 0x0200, len: Some(3) } }, Part2::Rects);
                }
            }
        }
    }
    f(Op::Clear { c: c2 }, Part2::Rects);
}

/// visible (clipped) area of a rectangle
pub fn clipped_area(r: &Rect, lw: u32, lh: u32) -> u64 {
    let x0 = (r.x as i64).max(0);
    let y0 = (r.y as i64).max(0);
    let x1 = (r.x as i64 + r.w as i64).min(lw as i64);
    let y1 = (r.y as i64 + r.h as i64).min(lh as i64);
    if x1 <= x0 || y1 <= y0 {
        0
    } else {
        ((x1 - x0) * (y1 - y0)) as u64
    }
}

pub fn check_case(ctx: &Ctx, acc: &mut Acc, cfg: &Cfg, op: &Op, ck: &Checks, differential: bool) {
    let geo = cfg.geo();
    let (lw, lh) = geo.lsize();
    if let Op::FillContiguous { r, .. } = op {
        let limit = if ctx.quick() { 1 << 12 } else { 1 << 17 };
        if clipped_area(r, lw, lh) > limit {
            acc.count("skipped_large", 1);
            return;
        }
    }
    acc.evaluations += 1;
    acc.transitions += 1;
    acc.traces += 1;
    let class = input_class(op, lw, lh);
    if class != "in-bounds" {
        acc.nontrivial += 1;
        acc.count(&format!("class:{class}"), 1);
    }
    let hist = std::slice::from_ref(op);
    match check_history(cfg, hist, ck) {
        Ok(run) => {
            let mut h = crate::util::Fnv::new();
            h.u64(run.rig.ctl.mem.digest());
            h.u64(run.rig.ctl.n_ramwr);
            acc.outcome(h.finish());
            if class != "in-bounds" && run.rig.ctl.mem.writes > 0 {
                acc.count("mixed_visible_and_clipped", 1);
            }
            if run.canvas.dropped > 0 {
                acc.count("points_dropped", run.canvas.dropped);
            }
            // differential: the same stream without its out-of-bounds items
            if differential {
                if let Op::DrawIter(Pixels::List(v)) = op {
                    let kept: Vec<(i32, i32, u32)> = v.iter().copied().filter(|&(x, y, _)| geo.in_bounds(x as i64, y as i64)).collect();
                    if kept.len() != v.len() {
                        let twin_op = Op::DrawIter(Pixels::List(kept));
                        match check_history(cfg, std::slice::from_ref(&twin_op), ck) {
                            Ok(twin) => {
                                if let Some(d) = run.rig.ctl.mem.first_diff(&twin.rig.ctl.mem) {
                                    let f = Fail {
                                        sig: format!("draw_iter/{class}/differs-from-in-bounds-remainder"),
                                        msg: format!("memory differs from the run without the out-of-bounds items at {d:?}"),
                                        at: 0,
                                    };
                                    acc.violation(violation(ctx, cfg, hist, "all", &f));
                                }
                                acc.count("differential_twins", 1);
                            }
                            Err((f, _)) => acc.violation(violation(ctx, cfg, std::slice::from_ref(&twin_op), "all", &f)),
                        }
                    }
                }
            }
        }
        Err((f, _)) => acc.violation(violation(ctx, cfg, hist, "all", &f)),
    }
}

/// set_orientation(o2) with its k-th low-level operation failing, then `ops` one after the other on the same display.
/// Returns (fault fired, first failure with the index of the failing operation).
pub fn after_failed_orientation(cfg: &Cfg, o2: u8, k: u64, ops: &[Op]) -> (bool, Option<(String, String, usize)>) {
    let mut rig = Rig::new(cfg);
    if !rig.init.is_ok() {
        return (false, None);
    }
    let at = rig.ops() + k;
    let fired0 = rig.bd.borrow().failed_ops.len();
    rig.set_faults(&[crate::env::Fault { at, mode: crate::env::FaultMode::Unchanged }]);
    let failed = rig.apply(&Op::SetOrientation(o2));
    rig.set_faults(&[]);
    if rig.bd.borrow().failed_ops.len() == fired0 {
        return (false, None);
    }
    rig.ctl.viols.clear();
    // the orientation the display reports decides where pixels belong
    let o = rig.dut.as_ref().unwrap().orientation();
    let geo = crate::spec::Geo { orient: o, ..cfg.geo() };
    let (lw, lh) = geo.lsize();
    let mut canvas = crate::spec::Canvas::new(geo);
    let c666 = cfg.c666();
    for (i, op) in ops.iter().enumerate() {
        if let Op::FillContiguous { r, .. } = op {
            if clipped_area(r, lw, lh) > 1 << 12 {
                continue;
            }
        }
        let out = rig.apply(op);
        spec_apply(&mut canvas, op, c666);
        let mk = |kind: &str, m: String| Some((format!("{}/after-failed-set_orientation/{kind}", op.name()), format!("set_orientation({o2}) failed at its low-level operation {k} ({failed:?}), the display reports orientation {o}; then operation #{i} {op:?}: {m}"), i));
        match &out {
            Outcome::Ok => {}
            Outcome::Panic(m) | Outcome::NonTermination(m) => return (true, mk("panic", m.clone())),
            Outcome::Err(e) => return (true, mk("spurious-error", format!("{e:?}"))),
        }
        if let Some(v) = rig.ctl.viols.first() {
            return (true, mk(viol_kind(v), format!("controller protocol violation: {v:?}")));
        }
        if let Some((x, y, got, want)) = rig.ctl.mem.first_diff(&canvas.mem) {
            let kind = if !canvas.geo.in_window(x, y) { "write-outside-window" } else { "memory-mismatch" };
            return (true, mk(kind, format!("framebuffer cell ({x},{y}): controller has {got:06x}, specification {want:06x} (ffffffff = untouched)")));
        }
    }
    (true, None)
}

pub fn replay_fault(case: &serde_json::Value) -> i32 {
    let cfg: Cfg = serde_json::from_value(case["cfg"].clone()).unwrap();
    let ops: Vec<Op> = serde_json::from_value(case["history"].clone()).unwrap();
    let (o2, k) = (case["o2"].as_u64().unwrap() as u8, case["k"].as_u64().unwrap());
    println!("{cfg:?}: set_orientation({o2}) with low-level operation {k} failing, then {} operations", ops.len());
    match after_failed_orientation(&cfg, o2, k, &ops).1 {
        Some((s, m, _)) => {
            println!("REPLAY: {s} -- {m}");
            1
        }
        None => {
            println!("REPLAY: passes");
            0
        }
    }
}

fn run(ctx: &Ctx) -> Part {
    let t0 = Instant::now();
    let quick = ctx.quick();
    let cfgs = configs(quick);
    let jobs: Vec<(Cfg, Part2)> = cfgs.iter().flat_map(|c| [Part2::Singles, Part2::Pairs, Part2::Triples, Part2::Rects].into_iter().map(move |p| (*c, p))).collect();
    let acc = jobs
        .par_iter()
        .fold(Acc::new, |mut acc, (cfg, part)| {
            let mut n = 0u64;
            let tcfg = Instant::now();
            for_each_op(cfg, quick, &mut |op, p| {
                if p != *part {
                    return;
                }
                check_case(ctx, &mut acc, cfg, &op, &Checks::ALL, true);
                // the same call after a run-time orientation change that keeps the logical size (mirror toggled /
                // half turn): singles, triples and rectangles on the small displays
                if p != Part2::Pairs && cfg.fb().0 < 1000 {
                    let geo = cfg.geo();
                    let (lw, lh) = geo.lsize();
                    if let Op::FillContiguous { r, .. } = &op {
                        if clipped_area(r, lw, lh) > 1 << 12 {
                            return;
                        }
                    }
                    let o2 = if n % 2 == 0 { cfg.orient ^ 4 } else { (cfg.orient & 4) | ((cfg.orient + 2) & 3) };
                    // every other case draws first (window / offset memos filled under the old orientation)
                    let hist: Vec<Op> = if n % 4 < 2 { vec![Op::SetOrientation(o2), op.clone()] } else { vec![Op::Clear { c: 0x0033 }, Op::SetOrientation(o2), op.clone()] };
                    acc.evaluations += 1;
                    acc.transitions += hist.len() as u64;
                    acc.traces += 1;
                    if input_class(&op, lw, lh) != "in-bounds" {
                        acc.nontrivial += 1;
                    }
                    if let Err((f, _)) = check_history(cfg, &hist, &Checks::ALL) {
                        acc.violation(violation(ctx, cfg, &hist, "all", &f));
                    }
                    acc.count("after_orientation_change", 1);
                }
                n += 1;
                if n == 1000 && acc.samples.len() < 2 {
                    acc.sample(json!({"cfg": cfg, "history": [op]}));
                }
            });
            if std::env::var_os("MC_VERBOSE").is_some() {
                eprintln!("cfg fb {:?} win {:?} o{} {:?}: {} cases {:.2}s", cfg.fb(), cfg.win, cfg.orient, part, n, tcfg.elapsed().as_secs_f64());
            }
            if *part == Part2::Singles {
                acc.states += 1;
                acc.count("configurations", 1);
                let g = cfg.geo();
                if g.ox > 0 || g.oy > 0 || g.w < g.fw || g.h < g.fh {
                    acc.count("configs_with_cells_outside_window", 1);
                }
            }
            acc
        })
        .reduce(Acc::new, Acc::merge);
    // ---- after a set_orientation whose k-th low-level operation failed (every k): the DrawTarget alphabet, applied to
    // the same display, still only touches the panel window and equals the canvas of the orientation the display
    // reports
    let mut fjobs: Vec<(Cfg, u8)> = Vec::new();
    for c in cfgs.iter().filter(|c| c.fb().0 < 1000) {
        let g = c.geo();
        if g.ox > 0 || g.oy > 0 || g.w < g.fw || g.h < g.fh {
            fjobs.push((*c, (c.orient + 1) % 8));
            fjobs.push((*c, c.orient ^ 6));
        }
    }
    for tr in [Transport::Par8, Transport::Spi { len: 5 }, Transport::Par16] {
        fjobs.push((Cfg::tiny(8, 6, false, tr, (4, 3, 2, 1), 1), 4));
        fjobs.push((Cfg::tiny(4, 3, false, tr, (2, 2, 1, 1), 6), 3));
    }
    let fa = fjobs
        .par_iter()
        .fold(Acc::new, |mut acc, (cfg, o2)| {
            let mut ops: Vec<Op> = Vec::new();
            for_each_op(cfg, true, &mut |op, p| {
                if p == Part2::Singles || p == Part2::Rects {
                    ops.push(op);
                }
            });
            for k in 0..64u64 {
                let (fired, f) = after_failed_orientation(cfg, *o2, k, &ops);
                if !fired {
                    break;
                }
                acc.evaluations += 1;
                acc.nontrivial += 1;
                acc.transitions += 1 + ops.len() as u64;
                acc.traces += 1;
                acc.count("programs_after_failed_orientation_change", 1);
                if let Some((sig, msg, upto)) = f {
                    acc.violation(Violation {
                        prop: ctx.prop.clone(),
                        sig: format!("{sig}{}", if ctx.batch { "" } else { "/nobatch" }),
                        msg,
                        case: json!({"kind": "c02-fault", "variant": ctx.variant, "cfg": cfg, "o2": o2, "k": k, "history": ops[..=upto]}),
                    });
                }
            }
            acc
        })
        .reduce(Acc::new, Acc::merge);
    let acc = acc.merge(fa);
    let bounds = json!({
        "configurations": cfgs.len(),
        "lattice_example_w4_F8": lattice(4, 8, true),
        "size_lattice_example_w4": size_lattice(4),
        "streams": if quick { "singles(full lattice), pairs(reduced lattice), in/out/in triples" } else { "singles, pairs (full lattice), in/out/in triples, all triples over reduced lattice x in-bounds third point" },
        "profile": if ctx.wrap { "overflow-checks off (silent wrap shows as wrong value)" } else { "overflow-checks on (wrap shows as panic)" },
    });
    let mut part = Part::new(ctx, acc, bounds, true, t0.elapsed().as_secs_f64());
    part.require("class:negative", 1);
    part.require("class:>=size", 1);
    part.require("class:>=65536", 1);
    part.require("class:clipped", 1);
    part.require("mixed_visible_and_clipped", 1);
    part.require("configs_with_cells_outside_window", 1);
    part.require("programs_after_failed_orientation_change", 10);
    part
}
