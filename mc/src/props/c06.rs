//! C06 - SPI transport delivers exactly the bytes to send, in order, and terminates
use std::time::Instant;

use rayon::prelude::*;
use serde_json::json;

use super::Entry;
use crate::env::*;
use crate::report::*;
use crate::rig::Outcome;
use crate::tr::*;

pub const ENTRY: Entry = Entry {
    id: "C06",
    variants: &["batch", "nobatch"],
    level: "model_checking",
    rule: "real SpiInterface over the virtual SPI device and DC pin, staging buffer pre-poisoned: pixel width N in {2,3} x buffer \
           length L in [N, 4N+1] + {16, 31, 64} x every history of <= 2 calls (<= 3 for L <= 2N+1) over the alphabet \
           {send_command(c, |args| in 0..=18), send_pixels(k pixels, k in 0..=3*cap+2), send_repeated_pixel(p, count in 0..=3*cap+2) for two \
           pixel values}, consecutive calls using disjoint byte alphabets so stale buffer content is visible; plus all pairs of pixel calls over ONE alphabet and all fill / stream-starting-with-the-fill-colour / fill triples (equal bytes in different calls, for cached-buffer mistakes). Every history is \
           prefixed by a RAMWR command. Oracle: concatenated written bytes == instruction, parameters, pixel bytes in order; DC low \
           for exactly the instruction byte; transactions within the termination budget; Ok. Non-trivial = histories with >= 2 calls. Post-fault leg: (call a with its k-th DC/SPI operation \
           failing once, every k) ; RAMWR ; (every call b): b and the recovery command must again deliver exactly their own bytes; \
           and fill ; (stream starting with the fill colour | other stream | fill, k-th operation failing) ; RAMWR ; fill. \
           Long runs: 1100 calls cycling through the alphabet on one interface object, every call checked. Byte totals beyond 2^32: send_repeated_pixel on the transport, and fill_solid through the real Display + pixel-format layer on a 65535 x 65535 external model (Rgb565 and Rgb666, grey and non-grey), run to completion in counting mode.",
    assumptions: &["a failed or zero-length SPI write delivers nothing", "the buffer is the transport's only state, so depth 2-3 with adversarial previous content covers any history"],
    run,
};

/// deterministic byte alphabets: slot k of a history uses bytes 0x10+0x40*k .. (never the poison 0xEE)
fn byte_of(slot: usize, i: usize) -> u8 {
    (0x10 + 0x40 * (slot as u8 % 3)).wrapping_add((i % 0x3D) as u8)
}

pub fn alphabet(n: usize, l: usize, slot: usize) -> Vec<TCall> {
    let cap = l / n;
    let mut v = Vec::new();
    for na in 0..=18usize {
        v.push(TCall::Cmd { op: byte_of(slot, 60), args: (0..na).map(|i| byte_of(slot, i)).collect() });
    }
    for k in 0..=(3 * cap + 2) {
        v.push(TCall::Pixels { n: n as u8, words: (0..k * n).map(|i| byte_of(slot, i) as u16).collect() });
    }
    // pixel sources that are not fused: end in the middle of a batch / at a batch boundary
    for k in [0usize, 1, cap.saturating_sub(1), cap, cap + 1, 2 * cap, 2 * cap + 1] {
        v.push(TCall::PixelsUnfused {
            n: n as u8,
            words: (0..k * n).map(|i| byte_of(slot, i) as u16).collect(),
            after: (0..2 * n).map(|i| 0xD0 + i as u16).collect(),
        });
    }
    // pixel sources whose size_hint upper bound exceeds what they yield
    for k in [0usize, 1, cap.saturating_sub(1), cap, cap + 1, 2 * cap + 1] {
        for extra in [1u32, 2, cap as u32 + 1] {
            v.push(TCall::PixelsLoose { n: n as u8, words: (0..k * n).map(|i| byte_of(slot, i) as u16).collect(), extra });
        }
    }
    for pix in 0..2usize {
        let pixel: Vec<u16> = (0..n).map(|i| byte_of(slot, 50 + pix * 5 + i * (1 - pix)) as u16).collect();
        for count in 0..=(3 * cap + 2) as u32 {
            v.push(TCall::Repeat { pixel: pixel.clone(), count });
        }
    }
    v
}

pub struct HistObs {
    pub fail: Option<(String, String)>,
    pub txns: Vec<u64>,
    pub bytes: Vec<u64>,
    /// the injected fault fired (post-fault histories)
    pub fired: bool,
}

/// run one history on a fresh SpiInterface; the first failing call is reported
pub fn run_history(n: usize, l: usize, hist: &[TCall]) -> HistObs {
    run_history_fault(n, l, hist, None)
}

/// `fault = (call index, k)`: the k-th low-level operation (DC pin write or SPI transaction) of that call fails once.
/// The failed call itself is not judged here (C12 does that); every later call of the history must again put exactly
/// its own bytes on the bus.
pub fn run_history_fault(n: usize, l: usize, hist: &[TCall], fault: Option<(usize, u64)>) -> HistObs {
    let mut t = TRig::spi(l, 0xEE);
    let usable = (l / n) * n;
    let mut obs = HistObs { fail: None, txns: vec![], bytes: vec![], fired: false };
    // preamble: memory-write-start
    let pre = TCall::Cmd { op: 0x2C, args: vec![] };
    let _ = t.call(&pre);
    let _ = t.latched();
    for (i, c) in hist.iter().enumerate() {
        let exp = c.expected();
        let nbytes = exp.len() as u64;
        // termination budget in transactions
        let budget = 2 * (nbytes / usable.max(1) as u64 + 1) + 8;
        let ops0 = {
            let mut b = t.bd.borrow_mut();
            b.budget = budget + 4; // + DC pin operations of a command
            b.ops
        };
        let ev0 = t.bd.borrow().evs.len();
        let faulted = matches!(fault, Some((fi, _)) if fi == i);
        if let Some((_, k)) = fault.filter(|_| faulted) {
            t.bd.borrow_mut().faults = vec![Fault { at: ops0 + k, mode: FaultMode::Unchanged }];
        }
        let out = t.call(c);
        t.bd.borrow_mut().budget = u64::MAX;
        let got = t.latched();
        if faulted {
            let mut b = t.bd.borrow_mut();
            b.faults.clear();
            if !b.failed_ops.is_empty() {
                obs.fired = true;
                obs.txns.push(0);
                obs.bytes.push(got.len() as u64);
                if let Outcome::Panic(m) | Outcome::NonTermination(m) = out {
                    obs.fail = Some(("failed-call/panic-or-non-termination".into(), format!("call #{i} with its operation {} failing: {m}", fault.unwrap().1)));
                    return obs;
                }
                continue;
            }
        }
        let ntx = t.bd.borrow().evs[ev0..].iter().filter(|e| matches!(e, Ev::SpiWrite { first: true, .. } | Ev::SpiEmptyTxn { .. })).count() as u64;
        obs.txns.push(ntx);
        obs.bytes.push(nbytes);
        let name = match c {
            TCall::Cmd { .. } => "send_command",
            TCall::Pixels { .. } => "send_pixels",
            TCall::PixelsUnfused { .. } => "send_pixels(unfused source)",
            TCall::PixelsLoose { .. } => "send_pixels(loose size hint)",
            TCall::Repeat { count, .. } => {
                if *count == 0 {
                    "send_repeated_pixel(count=0)"
                } else {
                    "send_repeated_pixel"
                }
            }
        };
        let after = if matches!(fault, Some((fi, _)) if fi < i) { "/after-failed-call" } else { "" };
        let fail = |kind: &str, msg: String| Some((format!("{name}/{kind}{after}"), format!("call #{i}: {msg}")));
        match out {
            Outcome::Ok => {}
            Outcome::NonTermination(m) => {
                obs.fail = fail("non-termination", format!("{m}: more than {budget} bus operations for {nbytes} bytes"));
                return obs;
            }
            Outcome::Panic(m) => {
                obs.fail = fail("panic", m);
                return obs;
            }
            Outcome::Err(e) => {
                obs.fail = fail("spurious-error", format!("{e:?}"));
                return obs;
            }
        }
        if got != exp {
            let gb: Vec<u16> = got.iter().map(|x| x.1).collect();
            let eb: Vec<u16> = exp.iter().map(|x| x.1).collect();
            if gb != eb {
                let kind = if gb.iter().any(|b| *b == 0xEE) {
                    "stale-buffer-content"
                } else if gb.len() != eb.len() {
                    "byte-count"
                } else {
                    "bytes"
                };
                obs.fail = fail(kind, format!("written {gb:02x?}, expected {eb:02x?}"));
            } else {
                obs.fail = fail("dc-level", format!("data/command levels {:?}, expected {:?}", got.iter().map(|x| x.0 as u8).collect::<Vec<_>>(), exp.iter().map(|x| x.0 as u8).collect::<Vec<_>>()));
            }
            return obs;
        }
    }
    obs
}

/// complete run of a repeat whose byte total does not fit 32 bits (counting mode: nothing is stored)
pub fn extreme_count(n: usize, count: u32, pat: [u8; 3], l: usize) -> (Option<(String, String)>, u64, u64) {
    let mut t = TRig::spi(l, 0xEE);
    let pre = TCall::Cmd { op: 0x2C, args: vec![] };
    let _ = t.call(&pre);
    let want = count as u64 * n as u64;
    {
        let mut b = t.bd.borrow_mut();
        b.count_only = true;
        b.spi_bytes = 0;
        b.spi_txns = 0;
        b.spi_expect = Some((n, pat));
        b.budget = 2 * (want / ((l / n) * n) as u64 + 1) + 8;
    }
    let c = TCall::Repeat { pixel: pat[..n].iter().map(|x| *x as u16).collect(), count };
    let out = t.call(&c);
    let b = t.bd.borrow();
    let mk = |k: &str, m: String| Some((format!("send_repeated_pixel(large count or buffer)/{k}"), format!("N={n}, count={count}, pixel {:02x?}, buffer {l}: {m}", &pat[..n])));
    let f = match out {
        Outcome::Ok => {
            if b.spi_bytes != want {
                mk("byte-count", format!("{} bytes written, {want} expected", b.spi_bytes))
            } else if let Some(off) = b.spi_mismatch {
                mk("bytes", format!("byte at offset {off} is not the pixel pattern"))
            } else {
                None
            }
        }
        Outcome::Panic(m) => mk("panic", m),
        Outcome::NonTermination(m) => mk("non-termination", m),
        Outcome::Err(e) => mk("spurious-error", format!("{e:?}")),
    };
    (f, b.spi_bytes, b.spi_txns)
}

/// a solid fill of w x h pixels through the real Display on a 65535 x 65535 external model over the real SpiInterface:
/// the pixel-format layer and Display::fill_solid sit between the caller and the transport, and their counts can
/// overflow too.  Counting mode is armed at the memory-write-start command.
pub fn display_extreme(c666: bool, w: u32, h: u32, colour: u32, len: u16) -> (Option<(String, String)>, u64, u64) {
    use crate::dut::*;
    use crate::rig::{Op, Rig};
    let cfg = Cfg::tiny(65535, 65535, c666, Transport::Spi { len }, (65535, 65535, 0, 0), 0);
    let mut rig = Rig::new(&cfg);
    let n = if c666 { 3usize } else { 2 };
    let pat: [u8; 3] = if c666 {
        [((colour >> 12) & 0x3F) as u8 * 4, ((colour >> 6) & 0x3F) as u8 * 4, (colour & 0x3F) as u8 * 4]
    } else {
        [(colour >> 8) as u8, colour as u8, 0]
    };
    let want = w as u64 * h as u64 * n as u64;
    {
        let mut b = rig.bd.borrow_mut();
        b.arm_on_ramwr = Some((n, pat));
    }
    rig.set_budget(2 * (want / ((len as u64 / n as u64) * n as u64) + 1) + 64, 0);
    let out = rig.apply(&Op::FillSolid { r: Rect { x: 0, y: 0, w, h }, c: colour });
    let b = rig.bd.borrow();
    let mk = |k: &str, m: String| Some((format!("fill_solid(display, count*N>=2^32)/{k}"), format!("{} fill_solid of {w}x{h} pixels of colour {colour:#x} over SpiInterface({len}): {m}", if c666 { "Rgb666" } else { "Rgb565" })));
    let f = match out {
        Outcome::Ok => {
            if b.arm_on_ramwr.is_some() {
                mk("no-memory-write", "no memory-write-start command was seen".into())
            } else if b.spi_bytes != want {
                mk("byte-count", format!("{} pixel bytes written after the memory-write-start command, {want} expected", b.spi_bytes))
            } else if let Some(off) = b.spi_mismatch {
                mk("bytes", format!("byte at offset {off} is not the colour's encoding {:02x?}", &pat[..n]))
            } else {
                None
            }
        }
        Outcome::Panic(m) => mk("panic", m),
        Outcome::NonTermination(m) => mk("non-termination", m),
        Outcome::Err(e) => mk("spurious-error", format!("{e:?}")),
    };
    (f, b.spi_bytes, b.spi_txns)
}

fn run(ctx: &Ctx) -> Part {
    let t0 = Instant::now();
    let quick = ctx.quick();
    let mut jobs = Vec::new();
    for n in [2usize, 3] {
        let mut ls: Vec<usize> = (n..=4 * n + 1).collect();
        ls.extend_from_slice(&[16, 31, 64]);
        if !quick {
            ls.extend_from_slice(&[17, 32, 33, 63, 65, 128]);
        }
        for l in ls {
            jobs.push((n, l));
        }
    }
    let acc = jobs
        .par_iter()
        .fold(Acc::new, |mut acc, &(n, l)| {
            let a0 = alphabet(n, l, 0);
            let a1 = alphabet(n, l, 1);
            let a2 = alphabet(n, l, 2);
            let depth3 = l <= 2 * n + 1 || (!quick && l <= 4 * n + 1);
            let mut check = |acc: &mut Acc, hist: &[TCall]| {
                acc.evaluations += 1;
                acc.transitions += hist.len() as u64;
                acc.traces += 1;
                if hist.len() >= 2 {
                    acc.nontrivial += 1;
                }
                let o = run_history(n, l, hist);
                let mut h = crate::util::Fnv::new();
                for t in &o.txns {
                    h.u64(*t);
                }
                for b in &o.bytes {
                    h.u64(*b);
                }
                acc.outcome(h.finish());
                if let Some((sig, msg)) = o.fail {
                    acc.violation(Violation {
                        prop: ctx.prop.clone(),
                        sig,
                        msg,
                        case: json!({"kind": "c06", "variant": ctx.variant, "n": n, "len": l, "history": hist}),
                    });
                }
            };
            // histories whose calls share byte values (a stream starting with the fill colour, the same
            // fill twice with different counts, ...): pixel calls of one alphabet, depth 2 and
            // (x, y, x') depth 3 - cached-buffer mistakes need equal bytes in different calls
            let pix0: Vec<&TCall> = a0.iter().filter(|c| !matches!(c, TCall::Cmd { .. })).collect();
            let mixed: Vec<TCall> = {
                // streams that start with one of the two repeat pixels and continue with other bytes
                let mut v = Vec::new();
                for pix in 0..2usize {
                    let pixel: Vec<u16> = (0..n).map(|i| byte_of(0, 50 + pix * 5 + i * (1 - pix)) as u16).collect();
                    for k in [1usize, 2, l / n, l / n + 1] {
                        let mut words = pixel.clone();
                        words.extend((0..(k.max(1) - 1) * n).map(|i| byte_of(0, 20 + i) as u16));
                        v.push(TCall::Pixels { n: n as u8, words });
                    }
                }
                v
            };
            for a in pix0.iter() {
                for b in pix0.iter().chain(mixed.iter().collect::<Vec<_>>().iter()) {
                    check(&mut acc, &[(*a).clone(), (*b).clone()]);
                    acc.count("same_alphabet_pairs", 1);
                }
            }
            let reps: Vec<&TCall> = a0.iter().filter(|c| matches!(c, TCall::Repeat { .. })).collect();
            for a in reps.iter() {
                for b in mixed.iter() {
                    for c in reps.iter() {
                        check(&mut acc, &[(*a).clone(), b.clone(), (*c).clone()]);
                        acc.count("fill_stream_fill_triples", 1);
                    }
                }
            }
            for a in &a0 {
                check(&mut acc, std::slice::from_ref(a));
                for b in &a1 {
                    check(&mut acc, &[a.clone(), b.clone()]);
                    if depth3 {
                        for c in &a2 {
                            check(&mut acc, &[a.clone(), b.clone(), c.clone()]);
                        }
                    }
                }
            }
            // post-fault histories: call a with its k-th low-level operation failing (every k), a recovery
            // command, then every call b of the next alphabet and every same-alphabet pixel call: b's bytes must be
            // exactly b's (a staging buffer or fill cache left over from the aborted call must not leak)
            let rec = TCall::Cmd { op: 0x2C, args: vec![] };
            let bs: Vec<TCall> = a1.iter().cloned().chain(pix0.iter().map(|c| (*c).clone())).chain(mixed.iter().cloned()).collect();
            let fault_as: Vec<&TCall> = if quick && l > 4 * n + 1 {
                a0.iter().filter(|c| c.n_expected() <= (2 * l + 2) as u64).collect()
            } else {
                a0.iter().collect()
            };
            for a in fault_as {
                for k in 0..64u64 {
                    let mut fired = false;
                    for b in &bs {
                        let hist = [a.clone(), rec.clone(), b.clone()];
                        acc.evaluations += 1;
                        acc.transitions += 3;
                        acc.traces += 1;
                        let o = run_history_fault(n, l, &hist, Some((0, k)));
                        if !o.fired {
                            break;
                        }
                        fired = true;
                        acc.nontrivial += 1;
                        acc.count("post_fault_histories", 1);
                        let mut h = crate::util::Fnv::new();
                        h.u64(k);
                        for b in &o.bytes {
                            h.u64(*b);
                        }
                        acc.outcome(h.finish());
                        if let Some((sig, msg)) = o.fail {
                            acc.violation(Violation {
                                prop: ctx.prop.clone(),
                                sig,
                                msg,
                                case: json!({"kind": "c06", "variant": ctx.variant, "n": n, "len": l, "history": hist, "fault": [0, k]}),
                            });
                        }
                    }
                    if !fired {
                        break;
                    }
                }
            }
            // fill ; stream or fill with its k-th operation failing ; RAMWR ; fill - state cached by the first fill
            // that the aborted call did not get to invalidate
            let cap = l / n;
            let pick = |cs: &[u32]| -> Vec<TCall> {
                reps.iter().filter(|c| matches!(c, TCall::Repeat { count, .. } if cs.contains(count))).map(|c| (*c).clone()).collect()
            };
            let firsts = pick(&[1, cap as u32, cap as u32 + 1]);
            let lasts = pick(&[1, cap as u32, cap as u32 + 1, 2 * cap as u32 + 1]);
            let mids: Vec<TCall> = mixed
                .iter()
                .cloned()
                .chain(a0.iter().filter(|c| matches!(c, TCall::Pixels { words, .. } if [1, cap, cap + 1, 2 * cap + 1].contains(&(words.len() / n)))).cloned())
                .chain(pick(&[1, cap as u32 + 1]))
                .collect();
            for a in &firsts {
                for b in &mids {
                    for k in 0..64u64 {
                        let mut fired = false;
                        for c in &lasts {
                            let hist = [a.clone(), b.clone(), rec.clone(), c.clone()];
                            acc.evaluations += 1;
                            acc.transitions += 4;
                            acc.traces += 1;
                            let o = run_history_fault(n, l, &hist, Some((1, k)));
                            if !o.fired {
                                break;
                            }
                            fired = true;
                            acc.nontrivial += 1;
                            acc.count("fill_failed_call_fill_histories", 1);
                            if let Some((sig, msg)) = o.fail {
                                acc.violation(Violation {
                                    prop: ctx.prop.clone(),
                                    sig,
                                    msg,
                                    case: json!({"kind": "c06", "variant": ctx.variant, "n": n, "len": l, "history": hist, "fault": [1, k]}),
                                });
                            }
                        }
                        if !fired {
                            break;
                        }
                    }
                }
            }
            acc.states += 1;
            if l == 2 * n + 1 {
                acc.sample(json!({"n": n, "len": l, "history": [a0[3], a1[25], a2[a2.len() - 1]]}));
            }
            acc
        })
        .reduce(Acc::new, Acc::merge);
    // long runs on one interface object (explicit horizon 1100 calls cycling through the alphabet): state that only
    // shows after many calls (a call counter, a buffer position that creeps) needs repetition, not breadth
    let long: Vec<Acc> = [(2usize, 5usize), (3, 7), (2, 16), (3, 64)]
        .par_iter()
        .map(|&(n, l)| {
            let mut acc = Acc::new();
            let a0 = alphabet(n, l, 0);
            let a1 = alphabet(n, l, 1);
            let mut hist: Vec<TCall> = Vec::with_capacity(1100);
            let mut i = 0usize;
            while hist.len() < 1100 {
                let src = if i % 2 == 0 { &a0 } else { &a1 };
                let c = &src[(i * 7 + i / 2) % src.len()];
                // a pixel call needs the data/command line high: the alphabet's commands leave it high
                hist.push(c.clone());
                i += 1;
            }
            acc.evaluations += 1;
            acc.nontrivial += 1;
            acc.transitions += hist.len() as u64;
            acc.count("long_run_calls", hist.len() as u64);
            let o = run_history(n, l, &hist);
            if let Some((sig, msg)) = o.fail {
                let upto = o.bytes.len().min(hist.len());
                acc.violation(Violation {
                    prop: ctx.prop.clone(),
                    sig: format!("{sig}/long-run"),
                    msg,
                    case: json!({"kind": "c06", "variant": ctx.variant, "n": n, "len": l, "history": hist[..upto.max(1)]}),
                });
            }
            acc
        })
        .collect();
    let mut acc = acc;
    for a in long {
        acc = acc.merge(a);
    }
    let acc = acc;
    // extreme repeat counts: byte totals beyond 2^32, complete runs in counting mode
    let mut acc = acc;
    let extremes: Vec<(usize, u32, [u8; 3], usize)> = vec![
        (2, 0x8000_0000, [0, 0, 0], 4096),
        (2, 0x8000_0001, [0xFF, 0xFF, 0], 4095),
        (3, 1_431_655_766, [0x3C, 0x3C, 0x3C], 4096),
        (2, 0x8000_0000, [0x12, 0x34, 0], 64),
        // staging buffers of 64 KiB and more (transfer lengths that do not fit 16 bits)
        (2, 32767, [0x12, 0x34, 0], 65536),
        (2, 32768, [0x12, 0x34, 0], 65536),
        (2, 32769, [0xAB, 0xAB, 0], 65537),
        (2, 100_000, [0x12, 0x34, 0], 70_000),
        (3, 21_846, [0x01, 0x02, 0x03], 65_536),
        (3, 50_000, [0x01, 0x02, 0x03], 131_072),
    ];
    let ex = extremes
        .par_iter()
        .fold(Acc::new, |mut acc, &(n, count, pat, l)| {
            acc.evaluations += 1;
            acc.nontrivial += 1;
            let (f, bytes, txns) = extreme_count(n, count, pat, l);
            acc.count("extreme_count_bytes", bytes);
            acc.count("extreme_count_transactions", txns);
            if let Some((sig, msg)) = f {
                acc.violation(Violation { prop: ctx.prop.clone(), sig, msg, case: json!({"kind": "c06x", "variant": ctx.variant, "n": n, "count": count, "pixel": pat, "len": l}) });
            }
            acc
        })
        .reduce(Acc::new, Acc::merge);
    acc = acc.merge(ex);
    // the same through Display::fill_solid and the pixel-format layer (grey and non-grey colours, both colour types)
    let dex: Vec<(bool, u32, u32, u32, u16)> = if quick {
        vec![(true, 37839, 37839, 0x15555 & 0x3FFFF, 4096), (false, 46341, 46341, 0x0000, 4096), (true, 40000, 35800, 0x00FC0, 4095)]
    } else {
        vec![
            (true, 37839, 37839, 0x15555, 4096),
            (false, 46341, 46341, 0x0000, 4096),
            (true, 40000, 35800, 0x00FC0, 4095),
            (true, 65535, 65535, 0x3FFFF, 4096),
            (false, 65535, 65535, 0x1234, 4096),
            (false, 65535, 40000, 0xFFFF, 64),
            (true, 65535, 30000, 0x00000, 512),
        ]
    };
    let dx = dex
        .par_iter()
        .fold(Acc::new, |mut acc, &(c666, w, h, colour, len)| {
            acc.evaluations += 1;
            acc.nontrivial += 1;
            let (f, bytes, txns) = display_extreme(c666, w, h, colour, len);
            acc.count("display_extreme_fill_bytes", bytes);
            acc.count("display_extreme_fill_transactions", txns);
            if let Some((sig, msg)) = f {
                acc.violation(Violation { prop: ctx.prop.clone(), sig, msg, case: json!({"kind": "c06d", "variant": ctx.variant, "c666": c666, "w": w, "h": h, "colour": colour, "len": len}) });
            }
            acc
        })
        .reduce(Acc::new, Acc::merge);
    acc = acc.merge(dx);
    let bounds = json!({"pixel_widths": [2, 3], "buffer_lengths": jobs.iter().map(|j| j.1).collect::<Vec<_>>(), "depth": "2 (3 for short buffers)", "poison": "0xEE",
        "extreme_counts": "send_repeated_pixel with count*N >= 2^32 bytes, run to completion in counting mode (byte total and periodic content checked)"});
    let mut part = Part::new(ctx, acc, bounds, true, t0.elapsed().as_secs_f64());
    part.require("fill_stream_fill_triples", 100);
    part.require("post_fault_histories", 1000);
    part.require("fill_failed_call_fill_histories", 1000);
    part
}

pub fn replay(case: &serde_json::Value) -> i32 {
    if case["kind"] == "c06d" {
        let (f, bytes, txns) = display_extreme(case["c666"].as_bool().unwrap(), case["w"].as_u64().unwrap() as u32, case["h"].as_u64().unwrap() as u32, case["colour"].as_u64().unwrap() as u32, case["len"].as_u64().unwrap() as u16);
        println!("{bytes} pixel bytes in {txns} transactions");
        return match f {
            Some((s, m)) => {
                println!("REPLAY: {s} -- {m}");
                1
            }
            None => {
                println!("REPLAY: passes");
                0
            }
        };
    }
    if case["kind"] == "c06x" {
        let pat: Vec<u8> = serde_json::from_value(case["pixel"].clone()).unwrap();
        let (f, bytes, txns) = extreme_count(case["n"].as_u64().unwrap() as usize, case["count"].as_u64().unwrap() as u32, [pat[0], pat[1], pat[2]], case["len"].as_u64().unwrap() as usize);
        println!("{bytes} bytes in {txns} transactions");
        return match f {
            Some((s, m)) => {
                println!("REPLAY: {s} -- {m}");
                1
            }
            None => {
                println!("REPLAY: passes");
                0
            }
        };
    }
    let n = case["n"].as_u64().unwrap() as usize;
    let l = case["len"].as_u64().unwrap() as usize;
    let hist: Vec<TCall> = serde_json::from_value(case["history"].clone()).unwrap();
    println!("SpiInterface with N={n}, buffer length {l}, history {hist:?}");
    let fault: Option<(usize, u64)> = case.get("fault").and_then(|f| serde_json::from_value(f.clone()).ok());
    if let Some((i, k)) = fault {
        println!("low-level operation {k} of call #{i} fails once");
    }
    let o = run_history_fault(n, l, &hist, fault);
    println!("transactions per call {:?}, bytes per call {:?}", o.txns, o.bytes);
    match o.fail {
        Some((sig, msg)) => {
            println!("REPLAY: {sig} -- {msg}");
            1
        }
        None => {
            println!("REPLAY: history passes all checks");
            0
        }
    }
}
