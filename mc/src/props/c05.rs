//! C05 - every colour value is encoded on the bus as the announced pixel format requires
use std::time::Instant;

use rayon::prelude::*;
use serde_json::json;

use super::Entry;
use crate::dut::*;
use crate::report::*;
use crate::rig::*;

pub const ENTRY: Entry = Entry {
    id: "C05",
    variants: &["batch"],
    level: "model_checking",
    rule: "ALL 65536 Rgb565 values on the recording interfaces (8- and 16-bit words), the real SPI transport and the real 8- and 16-bit \
           parallel transports, and ALL 262144 Rgb666 values on the 8-bit-word transports, each drawn through set_pixel (stream path), a \
           1x1 fill_solid and a 3-pixel fill_solid (repeat path) on the real driver; plus, for every built-in model on every supported \
           interface kind after its real init, a lattice of colour values (all values with <= 2 bits set, their complements, channel \
           maxima; thorough: all values). The bus traffic is decoded by an independent MIPI decoder according to the COLMOD the \
           initialisation *announced* (16 bpp: R5G6B5 most-significant byte first / one 16-bit word; 18 bpp: three bytes, six bits \
           left-aligned). Oracle: decoded (r,g,b) == drawn colour; repeat path words == stream path words; announced interface format \
           matches the colour type; fill / stream / fill histories on SPI decode to the fill colour, also when one low-level operation of the stream call fails (every position); solid fills of more than 65536 bus words on the real 8- and 16-bit parallel transports decode completely. Non-trivial = every value except black.",
    assumptions: &["independent decoder in ctl.rs; low two bits of 18-bpp bytes are ignored by the controller"],
    run,
};

fn sweep(ctx: &Ctx, acc: &mut Acc, cfg: &Cfg, values: &mut dyn Iterator<Item = u32>) {
    sweep_with(ctx, acc, cfg, values, 0)
}

/// `mode` bit 0: all data pins start high; bit 1: sleep() and wake() once before drawing
fn sweep_with(ctx: &Ctx, acc: &mut Acc, cfg: &Cfg, values: &mut dyn Iterator<Item = u32>, mode: u8) {
    let mut levels = crate::env::Board::default_levels();
    if mode & 1 != 0 {
        for l in levels.iter_mut().take(16) {
            *l = true;
        }
    }
    let mut rig = Rig::with(cfg, levels, &[]);
    if mode & 2 != 0 && rig.init.is_ok() {
        let a = rig.apply(&Op::Sleep);
        let b = rig.apply(&Op::Wake);
        if !(a.is_ok() && b.is_ok()) {
            acc.violation(Violation { prop: ctx.prop.clone(), sig: "sleep-wake/outcome".into(), msg: format!("{a:?} {b:?}"), case: json!({"kind": "c05", "variant": ctx.variant, "cfg": cfg, "value": null, "mode": mode}) });
            return;
        }
    }
    if !rig.init.is_ok() {
        acc.violation(Violation { prop: ctx.prop.clone(), sig: "init/failed".into(), msg: format!("{:?}", rig.init), case: json!({"kind": "c05", "variant": ctx.variant, "cfg": cfg, "value": null}) });
        return;
    }
    let c666 = cfg.c666();
    let dbi_want = if c666 { 0b110 } else { 0b101 };
    if rig.ctl.colmod.map(|c| c & 7) != Some(dbi_want) {
        acc.violation(Violation {
            prop: ctx.prop.clone(),
            sig: "colmod/mismatch".into(),
            msg: format!("announced COLMOD {:02x?}, the colour type needs interface format {dbi_want:03b}", rig.ctl.colmod),
            case: json!({"kind": "c05", "variant": ctx.variant, "cfg": cfg, "value": null}),
        });
        return;
    }
    let geo = cfg.geo();
    let cell_a = geo.cell(0, 0);
    let cell_b = geo.cell(1, 0);
    let cells_c = [geo.cell(0, 1), geo.cell(1, 1), geo.cell(2, 1)];
    let mut n = 0u64;
    for v in values {
        n += 1;
        acc.evaluations += 1;
        if v != 0 {
            acc.nontrivial += 1;
        }
        let want = packed_of(c666, v);
        let mut bad: Option<(String, String)> = None;
        let o1 = rig.apply(&Op::SetPixel { x: 0, y: 0, c: v });
        let raw_stream = rig.ctl.last_raw;
        let got_a = rig.ctl.mem.get(cell_a.0, cell_a.1);
        let o2 = rig.apply(&Op::FillSolid { r: Rect { x: 1, y: 0, w: 1, h: 1 }, c: v });
        let raw_rep1 = rig.ctl.last_raw;
        let got_b = rig.ctl.mem.get(cell_b.0, cell_b.1);
        let o3 = rig.apply(&Op::FillSolid { r: Rect { x: 0, y: 1, w: 3, h: 1 }, c: v });
        let raw_rep3 = rig.ctl.last_raw;
        let mk = |k: &str, m: String| Some((format!("encoding/{k}"), format!("colour value {v:#x} on {:?}: {m}", cfg.tr)));
        if !(o1.is_ok() && o2.is_ok() && o3.is_ok()) {
            bad = mk("outcome", format!("{o1:?} {o2:?} {o3:?}"));
        } else if !rig.ctl.viols.is_empty() {
            bad = mk("protocol", format!("{:?}", rig.ctl.viols[0]));
        } else if got_a != want {
            bad = mk("stream", format!("set_pixel decodes to (r,g,b) {got_a:06x}, drawn {want:06x}; bus words {raw_stream:04x?}"));
        } else if got_b != want {
            bad = mk("repeat", format!("1x1 fill_solid decodes to {got_b:06x}, drawn {want:06x}; bus words {raw_rep1:04x?}"));
        } else if cells_c.iter().any(|c| rig.ctl.mem.get(c.0, c.1) != want) {
            bad = mk("repeat", format!("3-pixel fill_solid decodes differently from the drawn colour {want:06x}"));
        } else if raw_stream != raw_rep1 || raw_stream != raw_rep3 {
            bad = mk("stream-vs-repeat", format!("stream path words {raw_stream:04x?}, repeat path words {raw_rep1:04x?} / {raw_rep3:04x?}"));
        }
        if let Some((sig, msg)) = bad {
            acc.violation(Violation { prop: ctx.prop.clone(), sig, msg, case: json!({"kind": "c05", "variant": ctx.variant, "cfg": cfg, "value": v, "mode": mode}) });
            rig.ctl.viols.clear();
        }
        if n % 97 == 0 {
            let mut h = crate::util::Fnv::new();
            h.u32(raw_stream[0] as u32 | (raw_stream[1] as u32) << 16);
            h.u32(raw_stream[2] as u32);
            acc.outcome(h.finish());
        }
        if n % 512 == 0 {
            rig.reset_logs();
        }
    }
    acc.states += 1;
}

fn lattice(c666: bool) -> Vec<u32> {
    let bits = if c666 { 18 } else { 16 };
    let mask = (1u32 << bits) - 1;
    let mut v = vec![0u32, mask];
    for a in 0..bits {
        v.push(1 << a);
        for b in (a + 1)..bits {
            v.push((1 << a) | (1 << b));
        }
    }
    let c: Vec<u32> = v.iter().map(|x| !x & mask).collect();
    v.extend(c);
    // channel maxima
    if c666 {
        v.extend_from_slice(&[0x3F000, 0x00FC0, 0x0003F]);
    } else {
        v.extend_from_slice(&[0xF800, 0x07E0, 0x001F]);
    }
    v.sort_unstable();
    v.dedup();
    v
}

fn run(ctx: &Ctx) -> Part {
    let t0 = Instant::now();
    let quick = ctx.quick();
    // (a) all values on the Tiny model
    let mut jobs: Vec<(Cfg, u32, u32)> = Vec::new();
    for (c666, trs) in [
        (false, vec![Transport::RecSerial, Transport::RecPar16, Transport::Spi { len: 5 }, Transport::Par8, Transport::Par16]),
        (true, vec![Transport::RecSerial, Transport::Spi { len: 7 }, Transport::Par8]),
    ] {
        let total: u32 = if c666 { 1 << 18 } else { 1 << 16 };
        for tr in trs {
            let cfg = Cfg::tiny(4, 3, c666, tr, (3, 3, 1, 0), if c666 { 5 } else { 2 });
            let chunk = 4096;
            for lo in (0..total).step_by(chunk) {
                jobs.push((cfg, lo, lo + chunk as u32));
            }
        }
    }
    let a = jobs
        .par_iter()
        .fold(Acc::new, |mut acc, (cfg, lo, hi)| {
            // every fourth chunk starts with all data pins high
            sweep_with(ctx, &mut acc, cfg, &mut (*lo..*hi), if (*lo / 4096) % 4 == 1 { 1 } else { 0 });
            acc
        })
        .reduce(Acc::new, Acc::merge);
    // (b) built-in models: COLMOD announced by the real init decides the decoding
    let mut bjobs = Vec::new();
    for (i, info) in BUILTINS.iter().enumerate() {
        for tr in [Transport::RecSerial, Transport::RecPar8, Transport::RecPar16, Transport::Spi { len: 12 }, Transport::Par8, Transport::Par16] {
            if !info.supports[tr.kind_idx()] || (info.c666 && tr.bus16()) {
                continue;
            }
            if quick && tr.is_real() && i % 3 != 0 {
                continue;
            }
            bjobs.push(Cfg { model: ModelId::Builtin(i as u8), tr, win: Some((3, 3, 1, 2)), orient: (i % 8) as u8, bgr: i % 2 == 1, invert: false, refresh: 0, rst: false, flags: 0 });
        }
    }
    let nb = bjobs.len();
    let b = bjobs
        .par_iter()
        .fold(Acc::new, |mut acc, cfg| {
            // the same lattice again with data pins that start high and after one sleep / wake cycle
            // (a re-announced pixel format, bus lines never driven since power-up)
            sweep_with(ctx, &mut acc, cfg, &mut lattice(cfg.c666()).into_iter().step_by(3), 3);
            if quick {
                sweep(ctx, &mut acc, cfg, &mut lattice(cfg.c666()).into_iter());
            } else {
                let total: u32 = if cfg.c666() { 1 << 18 } else { 1 << 16 };
                sweep(ctx, &mut acc, cfg, &mut (0..total));
            }
            acc.count("builtin_model_kind_pairs", 1);
            acc
        })
        .reduce(Acc::new, Acc::merge);
    // (d) solid fills of more than 65536 bus words on the real parallel transports (strobe-only repeat loops that
    // count in blocks): every word of the burst decodes to the colour, none is lost
    let big: Vec<(Transport, bool, u32, u32, u32)> = vec![
        (Transport::Par8, false, 40000, 1, 0x0000),
        (Transport::Par8, false, 33000, 2, 0x1818),
        (Transport::Par8, false, 40000, 1, 0x1234),
        (Transport::Par8, true, 30000, 1, 0x15555 & 0x3FFFF),
        (Transport::Par16, false, 40000, 2, 0xFFFF),
        (Transport::Par16, false, 65000, 2, 0x1234),
    ];
    let d = big
        .par_iter()
        .fold(Acc::new, |mut acc, &(tr, c666, w, h, colour)| {
            acc.evaluations += 1;
            acc.nontrivial += 1;
            let cfg = Cfg::tiny(65535, 65535, c666, tr, (65535, 65535, 0, 0), 0);
            let mut rig = Rig::new(&cfg);
            let out = rig.apply(&Op::FillSolid { r: Rect { x: 3, y: 5, w, h }, c: colour });
            rig.ctl.flush();
            let want = packed_of(c666, colour);
            let area = w as u64 * h as u64;
            let samples = [(3u16, 5u16), ((3 + w - 1) as u16, 5), ((3 + w / 2) as u16, (5 + h - 1) as u16), ((3 + w - 1) as u16, (5 + h - 1) as u16)];
            let wrong = samples.iter().find(|&&(x, y)| rig.ctl.mem.get(x, y) != want);
            if !out.is_ok() || !rig.ctl.viols.is_empty() || rig.ctl.cur_pixels != area || wrong.is_some() {
                acc.violation(Violation {
                    prop: ctx.prop.clone(),
                    sig: "encoding/large-repeat".into(),
                    msg: format!("{tr:?}: fill_solid of {w}x{h} pixels of colour {colour:#x}: outcome {out:?}, {} pixels decoded after the memory-write-start (expected {area}), protocol {:?}, first wrong sample {wrong:?}", rig.ctl.cur_pixels, rig.ctl.viols.first()),
                    case: json!({"variant": ctx.variant, "cfg": cfg, "faults": [], "history": [Op::FillSolid { r: Rect { x: 3, y: 5, w, h }, c: colour }], "checks": "all"}),
                });
            }
            acc.count("large_parallel_fills", 1);
            acc
        })
        .reduce(Acc::new, Acc::merge);
    // (c) fill / stream / fill histories on the real SPI transport: a solid fill must encode the colour
    // like a per-pixel stream also when the staging buffer was used by a stream in between (stream lengths
    // around multiples of the buffer capacity)
    let mut hjobs = Vec::new();
    for (c666, len) in [(false, 4u16), (false, 5), (false, 8), (true, 6), (true, 7), (true, 12)] {
        hjobs.push(Cfg::tiny(4, 3, c666, Transport::Spi { len }, (4, 3, 0, 0), 0));
    }
    let c = hjobs
        .par_iter()
        .fold(Acc::new, |mut acc, cfg| {
            let c666 = cfg.c666();
            let n = if c666 { 3 } else { 2 };
            let Transport::Spi { len } = cfg.tr else { unreachable!() };
            let cap = (len / n) as u64;
            let colours: Vec<u32> = if c666 { vec![0x00000, 0x3FFFF, 0x15A5A, 0x2A000] } else { vec![0x0000, 0xFFFF, 0xA5A5, 0x1234] };
            for &fill in &colours {
                for k in [1u64, cap - 1, cap, cap + 1, 2 * cap, 2 * cap + 1, 12] {
                    if k == 0 || k > 12 {
                        continue;
                    }
                    for first_is_fill in [false, true] {
                        acc.evaluations += 1;
                        acc.nontrivial += 1;
                        let mut rig = Rig::new(cfg);
                        let stream: Vec<u32> = (0..k).map(|i| if i == 0 && first_is_fill { fill } else { code(0x0101, i * 7 + 1, c666) }).collect();
                        let (w, h) = if k <= 4 { (k as u32, 1u32) } else { (4, (k as u32).div_ceil(4)) };
                        let ops = [
                            Op::Clear { c: fill },
                            Op::FillContiguous { r: Rect { x: 0, y: 0, w, h }, colors: Colors::List(stream.clone()) },
                            Op::FillSolid { r: Rect { x: 0, y: 0, w: 4, h: 3 }, c: fill },
                        ];
                        let mut ok = true;
                        for op in &ops {
                            ok &= rig.apply(op).is_ok();
                        }
                        let want = packed_of(c666, fill);
                        let geo = cfg.geo();
                        let wrong = (0..3u32).flat_map(|y| (0..4u32).map(move |x| (x, y))).find(|&(x, y)| {
                            let cc = geo.cell(x, y);
                            rig.ctl.mem.get(cc.0, cc.1) != want
                        });
                        if !ok || wrong.is_some() || !rig.ctl.viols.is_empty() {
                            acc.violation(Violation {
                                prop: ctx.prop.clone(),
                                sig: "encoding/fill-after-stream".into(),
                                msg: format!("{:?}: clear({fill:#x}), a stream of {k} pixels, fill_solid({fill:#x}): the last fill does not decode to the fill colour everywhere (first wrong pixel {wrong:?}, protocol {:?})", cfg.tr, rig.ctl.viols.first()),
                                case: json!({"variant": ctx.variant, "cfg": cfg, "faults": [], "history": ops, "checks": "all"}),
                            });
                        }
                        acc.count("fill_stream_fill_histories", 1);
                        // the same history with the k-th low-level operation of the stream call failing (every k)
                        for fk in 0..64u64 {
                            let mut rig = Rig::new(cfg);
                            let mut ok = rig.apply(&ops[0]).is_ok();
                            let at = rig.ops() + fk;
                            let fired0 = rig.bd.borrow().failed_ops.len();
                            rig.set_faults(&[crate::env::Fault { at, mode: crate::env::FaultMode::Unchanged }]);
                            let _ = rig.apply(&ops[1]);
                            rig.set_faults(&[]);
                            if rig.bd.borrow().failed_ops.len() == fired0 {
                                break;
                            }
                            rig.ctl.viols.clear();
                            acc.evaluations += 1;
                            acc.nontrivial += 1;
                            acc.count("fill_failed_stream_fill_histories", 1);
                            ok &= rig.apply(&ops[2]).is_ok();
                            let wrong = (0..3u32).flat_map(|y| (0..4u32).map(move |x| (x, y))).find(|&(x, y)| {
                                let cc = geo.cell(x, y);
                                rig.ctl.mem.get(cc.0, cc.1) != want
                            });
                            if !ok || wrong.is_some() || !rig.ctl.viols.is_empty() {
                                acc.violation(Violation {
                                    prop: ctx.prop.clone(),
                                    sig: "encoding/fill-after-failed-stream".into(),
                                    msg: format!("{:?}: clear({fill:#x}), a stream of {k} pixels whose low-level operation {fk} fails, fill_solid({fill:#x}): the last fill does not decode to the fill colour everywhere (first wrong pixel {wrong:?}, protocol {:?})", cfg.tr, rig.ctl.viols.first()),
                                    case: json!({"kind": "c05", "variant": ctx.variant, "cfg": cfg, "value": fill, "leg": "fill-failed-stream-fill", "k": k, "fk": fk, "first_is_fill": first_is_fill}),
                                });
                                break;
                            }
                        }
                    }
                }
            }
            acc
        })
        .reduce(Acc::new, Acc::merge);
    let mut acc = a.merge(b).merge(c).merge(d);
    acc.transitions = acc.evaluations * 3;
    acc.traces = acc.evaluations;
    acc.sample(json!({"cfg": jobs[0].0, "value": 0xF81F, "operations": ["set_pixel", "fill_solid 1x1", "fill_solid 3x1"]}));
    acc.sample(json!({"cfg": bjobs[3], "value": 0x0841}));
    let bounds = json!({"rgb565_values": 65536, "rgb666_values": 262144, "transports_565": 5, "transports_666": 3, "builtin_pairs": nb,
        "builtin_values": if quick { format!("lattice ({} / {} values)", lattice(false).len(), lattice(true).len()) } else { "all".into() }});
    let mut part = Part::new(ctx, acc, bounds, true, t0.elapsed().as_secs_f64());
    part.require("builtin_model_kind_pairs", 14);
    part
}

pub fn replay(case: &serde_json::Value) -> i32 {
    let cfg: Cfg = serde_json::from_value(case["cfg"].clone()).unwrap();
    let mut rig = Rig::new(&cfg);
    println!("announced COLMOD {:02x?}", rig.ctl.colmod);
    let mode = case["mode"].as_u64().unwrap_or(0) as u8;
    if mode != 0 {
        println!("(recorded with mode {mode}: bit 0 = data pins start high, bit 1 = after sleep + wake; this replay starts from the default board)");
    }
    if let Some(v) = case["value"].as_u64() {
        let v = v as u32;
        let _ = rig.apply(&Op::SetPixel { x: 0, y: 0, c: v });
        let c = cfg.geo().cell(0, 0);
        println!("set_pixel({v:#x}): bus words {:04x?}, decoded (r,g,b) {:06x}, drawn {:06x}", rig.ctl.last_raw, rig.ctl.mem.get(c.0, c.1), packed_of(cfg.c666(), v));
        let _ = rig.apply(&Op::FillSolid { r: Rect { x: 1, y: 0, w: 1, h: 1 }, c: v });
        println!("fill_solid 1x1: bus words {:04x?}", rig.ctl.last_raw);
    }
    0
}
