//! C11 - model initialisation programs the controller consistently with the options
//! C17 - reset comes first (monitor over the same executions)
use std::time::Instant;

use rayon::prelude::*;
use serde_json::json;

use super::Entry;
use crate::dut::*;
use crate::env::*;
use crate::report::*;
use crate::rig::*;
use crate::spec::madctl_spec;

pub const ENTRY: Entry = Entry {
    id: "C11",
    variants: &["batch"],
    level: "model_checking",
    rule: "every public model type in src/models (the list is cross-checked against a scan of `pub struct` in /repo/src/models/*.rs) x \
           the six transports (recording and real SPI / 8-bit / 16-bit parallel, decoded at pin level) that type-check x 2 colour \
           orders x 8 orientations x 2 inversions x 4 refresh orders x {full window, two offset windows, a 3-line strip, a single pixel} x {reset pin (ordinary or zero-sized type), none}. Oracle on \
           the reference controller's *final state* (not a golden trace): awake, display on, MADCTL == specification encoding, COLMOD \
           interface format == the model's colour type, inversion as chosen, no RAMWR / pixel data, init returns >= 120 ms (virtual \
           time) after the last sleep-out, cached MADCTL (hook) == value sent; unsupported kinds are refused with UnsupportedInterface \
           before any model command; the pinned support matrix is still accepted. Single-fault leg on the real transports (every model x transport x {pin, none}): each low-level operation of init fails once - \
           an init that still returns Ok must satisfy the same oracle, and a failed init retried through the same lent interface must satisfy it too. Non-trivial = every configuration that is not the \
           all-default option set.",
    assumptions: &["reference controller model; vendor commands are opaque; RM67162 manufacturer pages are modelled (0xFE p)"],
    run: run11,
};
pub const ENTRY17: Entry = Entry {
    id: "C17",
    variants: &["batch"],
    level: "model_checking",
    rule: "timeline monitor over every initialisation of the C11 enumeration (all built-in models x transports x option sets x \
           {reset pin, none}): with a reset pin the first event is RST low, then >= 10 us of delay, then RST high; RST stays high; no bus \
           event before the rising edge; no software reset anywhere. Without a pin the first bus event is command 0x01 with no \
           parameters, exactly once. All model commands come after the reset. Longer pulses and extra delays are accepted. Single-fault leg (each low-level operation of init on the real transports fails once): \
           no bus event while the pin is low or before a complete pulse, no software reset next to a pin, without a pin the first command seen is 0x01 (at most once); \
           a failed init retried through the same lent interface passes the full monitor. \
           Non-trivial = every execution (each contains a reset phase).",
    assumptions: &["unified virtual timeline of pin edges, delays and bus events"],
    run: run17,
};

pub fn scan_models() -> Result<Vec<String>, String> {
    let mut names = Vec::new();
    let dir = std::env::var("MIPIDSI_SRC").unwrap_or_else(|_| "/repo".into()) + "/src/models";
    let rd = std::fs::read_dir(&dir).map_err(|e| format!("{dir}: {e}"))?;
    for e in rd {
        let p = e.map_err(|e| e.to_string())?.path();
        if p.extension().map(|x| x == "rs").unwrap_or(false) {
            let s = std::fs::read_to_string(&p).map_err(|e| e.to_string())?;
            for l in s.lines() {
                if let Some(rest) = l.trim().strip_prefix("pub struct ") {
                    let n: String = rest.chars().take_while(|c| c.is_alphanumeric() || *c == '_').collect();
                    names.push(n);
                }
            }
        }
    }
    names.sort();
    Ok(names)
}

pub fn all_cfgs(_quick: bool) -> Vec<Cfg> {
    let mut v = Vec::new();
    for (i, info) in BUILTINS.iter().enumerate() {
        let (fw, fh) = info.fb;
        for tr in [Transport::RecSerial, Transport::RecPar8, Transport::RecPar16, Transport::Spi { len: 16 }, Transport::Par8, Transport::Par16] {
            if info.c666 && tr.bus16() {
                continue; // does not type-check: Rgb666 has no 16-bit-word pixel format
            }
            for rst in [false, true] {
                for win in [None, Some((fw - 5, fh - 3, 2, 1)), Some((fw / 2, fh / 2 + 1, fw / 2, 0)), Some((fw, 3, 0, fh - 3)), Some((1, 1, fw - 1, 0))] {
                    for bgr in [false, true] {
                        for o in 0..8u8 {
                            for invert in [false, true] {
                                for refresh in 0..4u8 {
                                    // builder call order (options before / after `.reset_pin()`), interface lent as
                                    // `&mut DI`, and data pins that start high are spread over the option product so
                                    // that every model x transport x reset setting meets each of them many times
                                    let k = o as u32 + refresh as u32 * 8 + bgr as u32 * 32 + invert as u32 * 64;
                                    let mut flags = 0u8;
                                    if k % 2 == 1 {
                                        flags |= F_OPTS_FIRST;
                                    }
                                    if (k / 2) % 3 == 1 {
                                        flags |= F_BORROWED;
                                    }
                                    if (k / 5) % 2 == 1 {
                                        flags |= F_DATA_HIGH;
                                    }
                                    // a zero-sized reset pin type (where the interface is not lent)
                                    if rst && flags & F_BORROWED == 0 && (k / 7) % 2 == 1 {
                                        flags |= F_ZST_RST;
                                    }
                                    v.push(Cfg { model: ModelId::Builtin(i as u8), tr, win, orient: o, bgr, invert, refresh, rst, flags });
                                }
                            }
                        }
                    }
                }
            }
        }
    }
    // SPI staging buffers shorter than the longest command frames of the init sequences (2, 3, 4, 6 bytes: legal, they
    // hold one or two pixels): command framing must not depend on the buffer
    for (i, info) in BUILTINS.iter().enumerate() {
        if !info.supports[0] {
            continue;
        }
        for len in [2u16, 3, 4, 6] {
            if info.c666 && len < 3 {
                continue;
            }
            for rst in [false, true] {
                v.push(Cfg { model: ModelId::Builtin(i as u8), tr: Transport::Spi { len }, win: None, orient: 3, bgr: true, invert: true, refresh: 1, rst, flags: 0 });
            }
        }
    }
    v
}

pub fn check_c11(r: &InitRun) -> Option<(String, String)> {
    let cfg = &r.cfg;
    let ModelId::Builtin(mi) = cfg.model else { unreachable!() };
    let info = &BUILTINS[mi as usize];
    let supported = info.supports[cfg.tr.kind_idx()];
    let mk = |k: &str, m: String| Some((format!("init/{}/{k}", info.name), format!("{} on {:?} (rst {}): {m}", info.name, cfg.tr, cfg.rst)));
    match &r.out {
        Outcome::Panic(m) => return mk("panic", m.clone()),
        Outcome::NonTermination(m) => return mk("non-termination", m.clone()),
        _ => {}
    }
    if !supported {
        // golden: pairings unsupported on the pinned tree may become supported, but if refused it must be clean
        match &r.out {
            Outcome::Err(ErrClass::UnsupportedInterface) => {
                // nothing but the reset step on the bus
                let model_cmds = r.ctl.cmds.iter().filter(|c| c.op != 0x01).count();
                if model_cmds != 0 {
                    return mk("commands-before-refusal", format!("{model_cmds} model commands were sent before UnsupportedInterface"));
                }
                return None;
            }
            Outcome::Ok => {} // newly supported: must then satisfy everything below
            o => return mk("refusal", format!("expected UnsupportedInterface or success, got {o:?}")),
        }
    } else if !r.out.is_ok() {
        return mk("support-matrix", format!("a pairing supported on the pinned tree now fails: {:?}", r.out));
    }
    let st = r.state.as_ref().unwrap();
    let c = &r.ctl;
    if !c.viols.is_empty() {
        return mk("protocol", format!("{:?}", c.viols[0]));
    }
    if c.sleeping {
        return mk("asleep", "controller is still in sleep mode after init".into());
    }
    if !c.display_on {
        return mk("display-off", "display was not switched on".into());
    }
    let want = madctl_spec(cfg.bgr, cfg.orient, cfg.refresh);
    if c.n_madctl == 0 || c.madctl != want {
        return mk("madctl", format!("device MADCTL {:02x} (sent {} times), specification {want:02x}", c.madctl, c.n_madctl));
    }
    if st.madctl != c.madctl {
        return mk("cached-madctl", format!("driver caches MADCTL {:02x} but sent {:02x}", st.madctl, c.madctl));
    }
    let dbi_want = if info.c666 { 0b110 } else { 0b101 };
    match c.colmod {
        Some(v) if v & 7 == dbi_want => {}
        other => return mk("colmod", format!("COLMOD {other:02x?}, interface format must be {dbi_want:03b} for the model's colour type")),
    }
    if c.inverted != cfg.invert {
        return mk("inversion", format!("inversion {} but {} was chosen", c.inverted, cfg.invert));
    }
    if c.n_ramwr != 0 || c.n_pixels != 0 || c.mem.writes != 0 {
        return mk("pixel-memory-written", format!("{} memory-write commands, {} pixels", c.n_ramwr, c.n_pixels));
    }
    let now = r.bd.borrow().now_ns;
    match c.slp_events.iter().rev().find(|e| e.0 == 0x11) {
        None => return mk("no-sleep-out", "no sleep-out command was sent".into()),
        Some(&(_, t)) => {
            if now - t < 120_000_000 {
                return mk("sleep-out-delay", format!("init returned {} us after sleep-out (< 120 ms)", (now - t) / 1000));
            }
        }
    }
    if (st.orient, st.bgr, st.invert, st.refresh) != (cfg.orient, cfg.bgr, cfg.invert, cfg.refresh) {
        return mk("stored-options", format!("driver stored {st:?}"));
    }
    None
}

pub fn check_c17(r: &InitRun) -> Option<(String, String)> {
    let cfg = &r.cfg;
    let ModelId::Builtin(mi) = cfg.model else { unreachable!() };
    let info = &BUILTINS[mi as usize];
    let mk = |k: &str, m: String| Some((format!("reset/{}/{k}", if cfg.rst { "pin" } else { "soft" }), format!("{} on {:?}: {m}", info.name, cfg.tr)));
    if matches!(r.out, Outcome::Panic(_) | Outcome::NonTermination(_)) {
        return None; // C11's business
    }
    let b = r.bd.borrow();
    let is_bus = |e: &Ev| match e {
        Ev::Pin { pin, .. } => *pin != PIN_RST,
        Ev::Delay { .. } => false,
        _ => true,
    };
    // opcode 0x01 anywhere on the bus counts, also while a vendor command page is selected: on the wire
    // it is the software-reset opcode, and no built-in init sequence has a legitimate use for it
    let soft_resets = r.ctl.cmds.iter().filter(|c| c.op == 0x01).count();
    if cfg.rst {
        // phase machine: expect RST low, delays summing to >= 10 us, RST high; no bus event before
        let mut phase = 0;
        let mut low_ns = 0u64;
        for (i, e) in b.evs.iter().enumerate().skip(r.ev_start) {
            match (phase, e) {
                (0, Ev::Pin { pin: PIN_RST, high: false, ok: true, .. }) => phase = 1,
                (0, _) => return mk("first-event", format!("first event is {e:?}, expected the reset pin driven low")),
                (1, Ev::Delay { ns }) => low_ns += ns,
                (1, Ev::Pin { pin: PIN_RST, high: true, ok: true, .. }) => {
                    if low_ns < 10_000 {
                        return mk("pulse-too-short", format!("reset pin was low for only {low_ns} ns"));
                    }
                    phase = 2;
                }
                (1, Ev::Pin { pin: PIN_RST, high: false, .. }) => {}
                (1, e) if is_bus(e) => return mk("bus-during-reset", format!("event #{i} {e:?} while the reset pin is low")),
                (2, Ev::Pin { pin: PIN_RST, high: false, .. }) => return mk("reset-pulled-low-again", format!("event #{i}")),
                _ => {}
            }
        }
        if phase != 2 {
            return mk("no-rising-edge", "the reset pin was never driven high again".into());
        }
        if !b.levels[PIN_RST as usize] {
            return mk("left-low", "reset pin left low".into());
        }
        if soft_resets != 0 {
            return mk("soft-reset-with-pin", format!("{soft_resets} software reset command(s) although a reset pin is configured"));
        }
    } else {
        match r.ctl.cmds.first() {
            Some(c) if c.op == 0x01 && c.params.is_empty() => {}
            other => return mk("first-command", format!("first bus command is {:02x?}, expected 0x01 without parameters", other.map(|c| (c.op, c.params.clone())))),
        }
        if soft_resets != 1 {
            return mk("soft-reset-count", format!("software reset sent {soft_resets} times"));
        }
        if b.evs.iter().skip(r.ev_start).any(|e| matches!(e, Ev::Pin { pin: PIN_RST, .. })) {
            return mk("rst-touched", "reset pin operations without a configured reset pin".into());
        }
    }
    None
}

/// C17 on an initialisation during which one low-level operation failed: whatever the driver does about the
/// failure, it must not talk to the panel before a complete reset pulse, nor send a software reset next to a pin
pub fn check_c17_faulted(r: &InitRun) -> Option<(String, String)> {
    let cfg = &r.cfg;
    let ModelId::Builtin(mi) = cfg.model else { unreachable!() };
    let info = &BUILTINS[mi as usize];
    let mk = |k: &str, m: String| Some((format!("reset-with-fault/{}/{k}", if cfg.rst { "pin" } else { "soft" }), format!("{} on {:?}: {m}", info.name, cfg.tr)));
    if matches!(r.out, Outcome::Panic(_) | Outcome::NonTermination(_)) {
        return None;
    }
    let b = r.bd.borrow();
    let soft_resets = r.ctl.cmds.iter().filter(|c| c.op == 0x01).count();
    if cfg.rst {
        let mut level = true;
        let mut low_ns = 0u64;
        let mut pulse_done = false;
        for (i, e) in b.evs.iter().enumerate().skip(r.ev_start) {
            match e {
                Ev::Pin { pin: PIN_RST, high, applied, .. } => {
                    if *applied {
                        if !*high {
                            level = false;
                            low_ns = 0;
                        } else {
                            if !level && low_ns >= 10_000 {
                                pulse_done = true;
                            }
                            level = true;
                        }
                    }
                }
                Ev::Delay { ns } => {
                    if !level {
                        low_ns += ns;
                    }
                }
                e => {
                    if !level {
                        return mk("bus-during-reset", format!("event #{i} {e:?} while the reset pin is low"));
                    }
                    if !pulse_done {
                        return mk("bus-before-reset", format!("event #{i} {e:?} although no complete reset pulse has happened"));
                    }
                }
            }
        }
        if soft_resets != 0 {
            return mk("soft-reset-with-pin", format!("{soft_resets} software reset command(s) although a reset pin is configured"));
        }
        if r.out.is_ok() && !b.levels[PIN_RST as usize] {
            return mk("left-low", "init returned Ok with the reset pin low".into());
        }
    } else {
        if let Some(c) = r.ctl.cmds.first() {
            if c.op != 0x01 || !c.params.is_empty() {
                return mk("first-command", format!("first bus command is {:02x} {:02x?}, expected 0x01 without parameters", c.op, c.params));
            }
        }
        if soft_resets > 1 {
            return mk("soft-reset-count", format!("software reset sent {soft_resets} times"));
        }
    }
    None
}

/// single-fault leg shared by C11 and C17: every low-level operation of a fault-free init fails once
fn init_fault_leg(ctx: &Ctx, acc: &mut Acc, cfg: &Cfg, which: u8) {
    let base = init_run(cfg, &[]);
    if !base.out.is_ok() {
        return;
    }
    let n = base.bd.borrow().ops;
    let name = match cfg.model {
        ModelId::Builtin(i) => BUILTINS[i as usize].name,
        _ => "?",
    };
    for k in 0..n {
        let mut modes = vec![FaultMode::Unchanged];
        let mut mi = 0;
        while mi < modes.len() {
            let mode = modes[mi];
            mi += 1;
            let r = init_run(cfg, &[Fault { at: k, mode }]);
            acc.evaluations += 1;
            acc.transitions += 1;
            let fired = r.bd.borrow().failed_ops.clone();
            if fired.len() != 1 {
                continue; // C12 reports faults that do not fire
            }
            acc.nontrivial += 1;
            acc.count("init_single_faults", 1);
            if fired[0].1 < 16 && mode == FaultMode::Unchanged {
                modes.push(FaultMode::Changed);
            }
            let mut bad: Option<(String, String)> = None;
            let ctxt = format!("{name} on {:?} (rst {}), low-level operation {k} fails once ({mode:?})", cfg.tr, cfg.rst);
            if which == 11 {
                // an init that reports success must have initialised the panel, fault or not
                if r.out.is_ok() {
                    acc.count("init_ok_despite_fault", 1);
                    if let Some((s, m)) = check_c11(&r) {
                        bad = Some((format!("init-ok-despite-fault/{}", s.replace('/', "-")), format!("{ctxt}: {m}")));
                    }
                }
            } else if let Some((s, m)) = check_c17_faulted(&r) {
                bad = Some((s, format!("{ctxt}: {m}")));
            }
            // a failed init retried through the same lent interface is an initialisation like any other
            if bad.is_none() && mode == FaultMode::Unchanged && !r.out.is_ok() {
                let (_first, retry) = init_run_retry(cfg, &[Fault { at: k, mode }]);
                acc.evaluations += 1;
                acc.count("init_retries", 1);
                let f = if which == 11 { check_c11(&retry) } else { check_c17(&retry) };
                if let Some((s, m)) = f {
                    bad = Some((format!("retry-after-failed-init/{}", s.replace('/', "-")), format!("{ctxt}; then init again through the same interface: {m}")));
                }
            }
            if let Some((sig, msg)) = bad {
                acc.violation(Violation { prop: ctx.prop.clone(), sig, msg, case: json!({"kind": "init-fault", "variant": ctx.variant, "cfg": cfg, "which": which, "k": k, "mode": mode}) });
            }
        }
    }
}

fn run_both(ctx: &Ctx, which: u8) -> Part {
    let t0 = Instant::now();
    let quick = ctx.quick();
    // the harness list should cover every public model type of the tree under test
    let mut extra_caps: Vec<String> = Vec::new();
    match scan_models() {
        Ok(found) => {
            let mut have: Vec<String> = BUILTINS.iter().map(|b| b.name.to_string()).collect();
            have.sort();
            // a model the harness knows but the tree no longer has would not have compiled; public structs the
            // harness does not know (a new model, a helper type) are not covered: reported as a cap, not an error
            let unknown: Vec<&String> = found.iter().filter(|f| !have.contains(f)).collect();
            if !unknown.is_empty() {
                eprintln!("note: public structs in src/models that the harness does not drive: {unknown:?}");
                extra_caps.push(format!("public structs in src/models not driven by the harness: {unknown:?}"));
            }
        }
        Err(e) => {
            eprintln!("MACHINERY: cannot scan models: {e}");
            std::process::exit(2);
        }
    }
    let cfgs = all_cfgs(quick);
    let n = cfgs.len();
    let mut acc = cfgs
        .par_iter()
        .fold(Acc::new, |mut acc, cfg| {
            let r = init_run(cfg, &[]);
            acc.evaluations += 1;
            let default_opts = cfg.orient == 0 && !cfg.bgr && !cfg.invert && cfg.refresh == 0 && cfg.win.is_none();
            if which == 17 || !default_opts {
                acc.nontrivial += 1;
            }
            let f = if which == 11 { check_c11(&r) } else { check_c17(&r) };
            let mut h = crate::util::Fnv::new();
            h.u64(r.ctl.reg_digest());
            h.u32(r.out.is_ok() as u32);
            h.u64(r.ctl.n_cmds);
            acc.outcome(h.finish());
            match &r.out {
                Outcome::Ok => acc.count("initialised", 1),
                Outcome::Err(ErrClass::UnsupportedInterface) => acc.count("refused_unsupported", 1),
                _ => acc.count("other_outcome", 1),
            }
            if let Some((sig, msg)) = f {
                acc.violation(Violation { prop: ctx.prop.clone(), sig, msg, case: json!({"kind": "init", "variant": ctx.variant, "cfg": cfg, "which": which}) });
            }
            acc
        })
        .reduce(Acc::new, Acc::merge);
    // single-fault leg on the real transports
    let mut fcfgs = Vec::new();
    for (i, info) in BUILTINS.iter().enumerate() {
        for tr in super::c12::REAL {
            if info.c666 && tr.bus16() {
                continue;
            }
            for rst in [false, true] {
                let opts: &[(u8, bool, bool, u8)] = if quick { &[(5, true, true, 1)] } else { &[(5, true, true, 1), (0, false, false, 0), (2, false, true, 3)] };
                for &(orient, bgr, invert, refresh) in opts {
                    fcfgs.push(Cfg { model: ModelId::Builtin(i as u8), tr, win: None, orient, bgr, invert, refresh, rst, flags: 0 });
                }
            }
        }
    }
    let fa = fcfgs
        .par_iter()
        .fold(Acc::new, |mut acc, cfg| {
            init_fault_leg(ctx, &mut acc, cfg, which);
            acc
        })
        .reduce(Acc::new, Acc::merge);
    acc = acc.merge(fa);
    acc.caps.extend(extra_caps);
    acc.states = n as u64;
    acc.transitions = acc.evaluations;
    acc.traces = acc.evaluations;
    acc.sample(json!({"cfg": cfgs[n / 3]}));
    acc.sample(json!({"cfg": cfgs[2 * n / 3]}));
    let bounds = json!({"models": BUILTINS.iter().map(|b| b.name).collect::<Vec<_>>(), "configurations": n,
        "transports": ["RecSerial", "RecPar8", "RecPar16", "Spi(16)", "Par8", "Par16"], "options": "2 colour orders x 8 orientations x 2 inversions x 4 refresh orders x 2 windows x {rst, no rst}"});
    let mut part = Part::new(ctx, acc, bounds, true, t0.elapsed().as_secs_f64());
    part.require("initialised", 1000);
    part.require("init_single_faults", 1000);
    part.require("init_retries", 1000);
    part
}
fn run11(ctx: &Ctx) -> Part {
    run_both(ctx, 11)
}
fn run17(ctx: &Ctx) -> Part {
    run_both(ctx, 17)
}

pub fn replay(case: &serde_json::Value) -> i32 {
    let cfg: Cfg = serde_json::from_value(case["cfg"].clone()).unwrap();
    if case["kind"] == "init-fault" {
        let k = case["k"].as_u64().unwrap();
        let mode: FaultMode = serde_json::from_value(case["mode"].clone()).unwrap();
        let which = case["which"].as_u64().unwrap() as u8;
        let r = init_run(&cfg, &[Fault { at: k, mode }]);
        println!("init with low-level operation {k} failing once ({mode:?}): outcome {:?}", r.out);
        for c in &r.ctl.cmds {
            println!("  t={:>10}ns cmd {:02x} params {:02x?}", c.t_ns, c.op, c.params);
        }
        let mut f = if which == 11 { if r.out.is_ok() { check_c11(&r) } else { None } } else { check_c17_faulted(&r) };
        if f.is_none() && !r.out.is_ok() {
            let (_first, retry) = init_run_retry(&cfg, &[Fault { at: k, mode }]);
            println!("second init through the same interface: outcome {:?}", retry.out);
            for c in &retry.ctl.cmds {
                println!("  t={:>10}ns cmd {:02x} params {:02x?}", c.t_ns, c.op, c.params);
            }
            f = if which == 11 { check_c11(&retry) } else { check_c17(&retry) };
        }
        return match f {
            Some((s, m)) => {
                println!("REPLAY: {s} -- {m}");
                1
            }
            None => {
                println!("REPLAY: passes");
                0
            }
        };
    }
    let r = init_run(&cfg, &[]);
    println!("init outcome: {:?}", r.out);
    for c in &r.ctl.cmds {
        println!("  t={:>10}ns cmd {:02x} params {:02x?}{}", c.t_ns, c.op, c.params, if c.opaque_page { " (vendor page)" } else { "" });
    }
    println!("virtual time at return: {} ns; controller: sleeping={} on={} madctl={:02x} colmod={:02x?} inverted={}", r.bd.borrow().now_ns, r.ctl.sleeping, r.ctl.display_on, r.ctl.madctl, r.ctl.colmod, r.ctl.inverted);
    let f = if case["which"] == 17 { check_c17(&r) } else { check_c11(&r) };
    match f {
        Some((s, m)) => {
            println!("REPLAY: {s} -- {m}");
            1
        }
        None => {
            println!("REPLAY: passes");
            0
        }
    }
}
