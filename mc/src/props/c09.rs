//! C09 - init accepts exactly the windows that fit, and rejects before touching hardware
use std::time::Instant;

use rayon::prelude::*;
use serde_json::json;

use super::Entry;
use crate::dut::*;
use crate::env::*;
use crate::report::*;
use crate::rig::{guarded, Outcome};
use crate::spec::{init_spec, InitVerdict};

pub const ENTRY: Entry = Entry {
    id: "C09",
    variants: &["batch", "wrap"],
    level: "model_checking",
    rule: "real Builder::init on external models with 20 framebuffer sizes (all of {1,240,65535}^2, the built-in sizes, \
           32767x32768, 32768x32767, 65534x65535, 65535x32768, ...) x (w,h,ox,oy) over a per-dimension boundary lattice \
           {0,1,2,F-1,F,F+1,65535-F,65536-F,65537-F,32767,32768,65534,65535} (~28k-65k tuples per size) x {with, without reset pin} x {default options, a rotated/mirrored option set, a second option set with the builder \
           options given before `.reset_pin()` and/or the interface lent as `&mut`}; plus every built-in model with strips / single pixels / oversize windows of its own framebuffer; thorough adds all 2^32 (w,ox) pairs and all 2^32 (h,oy) pairs for three sizes with the other dimension valid / \
           offset-overflowing. Oracle: u64 predicate decides Ok / InvalidDisplaySize / InvalidDisplayOffset; on rejection the reset pin, \
           the delay source and the bus have seen zero operations. Checked and wrapping arithmetic builds. Non-trivial = rejected \
           configurations and accepted ones with a non-zero offset.",
    assumptions: &["external models are represented by the const-generic Tiny model on a recording interface"],
    run,
};

pub const SIZES: &[(u16, u16)] = &[
    (1, 1), (1, 240), (240, 1), (240, 240), (1, 65535), (65535, 1), (240, 65535), (65535, 240), (65535, 65535),
    (2, 3), (240, 320), (320, 480), (240, 536), (128, 160), (32767, 32768), (32768, 32767), (65534, 65535), (65535, 32768), (3, 2), (8, 6),
];

fn dim_lattice(f: u16) -> Vec<u16> {
    let f = f as i64;
    let mut v: Vec<i64> = vec![0, 1, 2, f - 1, f, f + 1, 65535 - f, 65536 - f, 65537 - f, 32767, 32768, 65534, 65535, f / 2];
    v.retain(|x| *x >= 0 && *x <= 65535);
    v.sort_unstable();
    v.dedup();
    v.into_iter().map(|x| x as u16).collect()
}

/// one init; returns a violation (sig, msg) if the verdict or the side effects are wrong
pub fn check_init(fw: u16, fh: u16, w: u16, h: u16, ox: u16, oy: u16, rst: bool) -> (InitVerdict, Option<(String, String)>) {
    check_init_o(fw, fh, w, h, ox, oy, rst, 0)
}

/// `opt`: bits 0..2 orientation, bit 3 builder options set before `.reset_pin()`, bit 4 borrowed interface
pub fn check_init_o(fw: u16, fh: u16, w: u16, h: u16, ox: u16, oy: u16, rst: bool, opt: u8) -> (InitVerdict, Option<(String, String)>) {
    let want = init_spec(fw, fh, w, h, ox, oy);
    let bd = Board::new(Board::default_levels());
    bd.borrow_mut().count_only = true;
    let cfg = Cfg { model: ModelId::Tiny { fw, fh, c666: false }, tr: Transport::RecSerial, win: Some((w, h, ox, oy)), orient: opt & 7, bgr: opt & 1 != 0, invert: false, refresh: (opt >> 1) & 3, rst, flags: (if opt & 8 != 0 { F_OPTS_FIRST } else { 0 }) | (if opt & 16 != 0 { F_BORROWED } else { 0 }) };
    let mut res = None;
    let out = guarded(|| {
        res = Some(init_only(&cfg, &bd).res);
        Ok(())
    });
    let class = match want {
        InitVerdict::Ok => "fits",
        InitVerdict::InvalidSize => "bad-size",
        InitVerdict::InvalidOffset => "bad-offset",
    };
    let mk = |k: &str, m: String| (want, Some((format!("init/{class}/{k}"), format!("framebuffer {fw}x{fh}, size {w}x{h}, offset ({ox},{oy}), reset pin {rst}, options code {opt}: {m}"))));
    if let Outcome::Panic(m) = out {
        return mk("panic", m);
    }
    let res = res.unwrap();
    let b = bd.borrow();
    match (&want, &res) {
        (InitVerdict::Ok, Ok(st)) => {
            if (st.w, st.h, st.ox, st.oy) != (w, h, ox, oy) {
                return mk("stored-options", format!("driver stored {:?}", (st.w, st.h, st.ox, st.oy)));
            }
        }
        (InitVerdict::InvalidSize, Err(ErrClass::InvalidDisplaySize)) | (InitVerdict::InvalidOffset, Err(ErrClass::InvalidDisplayOffset)) => {
            if b.ops != 0 || b.delay_calls != 0 {
                return mk("hardware-touched-before-rejection", format!("{} pin/bus operations and {} delay calls before the error", b.ops, b.delay_calls));
            }
        }
        _ => {
            return mk("verdict", format!("init returned {:?}, specification {:?}", res.as_ref().map(|_| "Ok"), want));
        }
    }
    (want, None)
}

fn run(ctx: &Ctx) -> Part {
    let t0 = Instant::now();
    let quick = ctx.quick();
    let mut jobs = Vec::new();
    for &(fw, fh) in SIZES {
        for rst in [false, true] {
            for &w in &dim_lattice(fw) {
                jobs.push((fw, fh, rst, w));
            }
        }
    }
    let mut acc = jobs
        .par_iter()
        .fold(Acc::new, |mut acc, &(fw, fh, rst, w)| {
            let lx = dim_lattice(fw);
            let ly = dim_lattice(fh);
            for &ox in &lx {
                for &h in &ly {
                    for &oy in &ly {
                      // every tuple in the default orientation; plus two rotated / mirrored option sets chosen
                      // by position so that all 8 orientations, both builder call orders and the borrowed
                      // interface occur for every framebuffer size
                      let k = (w as u32 + ox as u32 * 3 + h as u32 * 5 + oy as u32 * 7) as u8;
                      for opt in [0u8, 1 + (k % 7), (8 | 16) ^ (k & 24) | ((k / 3) % 8)] {
                        let (v, f) = check_init_o(fw, fh, w, h, ox, oy, rst, opt);
                        acc.evaluations += 1;
                        match v {
                            InitVerdict::Ok => {
                                acc.count("accepted", 1);
                                if ox > 0 || oy > 0 {
                                    acc.nontrivial += 1;
                                }
                            }
                            InitVerdict::InvalidSize => {
                                acc.count("rejected_size", 1);
                                acc.nontrivial += 1;
                            }
                            InitVerdict::InvalidOffset => {
                                acc.count("rejected_offset", 1);
                                acc.nontrivial += 1;
                            }
                        }
                        if let Some((sig, msg)) = f {
                            acc.violation(Violation { prop: ctx.prop.clone(), sig, msg, case: json!({"kind": "c09", "variant": ctx.variant, "fb": [fw, fh], "win": [w, h, ox, oy], "rst": rst, "opt": opt}) });
                        }
                      }
                    }
                }
            }
            acc
        })
        .reduce(Acc::new, Acc::merge);
    // every built-in model with a window lattice of its own framebuffer (a model's init must not add
    // conditions of its own): strips of 1..8 lines / columns, single pixels, the full window, too large
    let bjobs: Vec<(usize, bool)> = (0..BUILTINS.len()).flat_map(|i| [false, true].into_iter().map(move |r| (i, r))).collect();
    let b = bjobs
        .par_iter()
        .fold(Acc::new, |mut acc, &(i, rst)| {
            let info = &BUILTINS[i];
            let (fw, fh) = info.fb;
            let tr = if info.supports[0] { Transport::RecSerial } else { Transport::RecPar8 };
            let ws = [0u16, 1, 2, 7, 8, 9, fw / 2, fw - 1, fw, fw + 1];
            let hs = [0u16, 1, 2, 7, 8, 9, fh / 2, fh - 1, fh, fh + 1];
            for &w in &ws {
                for &h in &hs {
                    for (ox, oy) in [(0u16, 0u16), (1, 0), (0, 1), (fw.saturating_sub(w), fh.saturating_sub(h)), (fw.saturating_sub(w) + 1, 0)] {
                        for o in [0u8, 1, 6] {
                            acc.evaluations += 1;
                            acc.nontrivial += 1;
                            let want = init_spec(fw, fh, w, h, ox, oy);
                            let bd = Board::new(Board::default_levels());
                            bd.borrow_mut().count_only = true;
                            let cfg = Cfg { model: ModelId::Builtin(i as u8), tr, win: Some((w, h, ox, oy)), orient: o, bgr: false, invert: false, refresh: 0, rst, flags: if o == 6 { F_ZST_RST } else { 0 } };
                            let mut res = None;
                            let out = guarded(|| {
                                res = Some(init_only(&cfg, &bd).res);
                                Ok(())
                            });
                            let bb = bd.borrow();
                            let ok = match (&want, &res, &out) {
                                (_, _, Outcome::Panic(_)) => false,
                                (InitVerdict::Ok, Some(Ok(_)), _) => true,
                                (InitVerdict::InvalidSize, Some(Err(ErrClass::InvalidDisplaySize)), _) | (InitVerdict::InvalidOffset, Some(Err(ErrClass::InvalidDisplayOffset)), _) => bb.ops == 0 && bb.delay_calls == 0,
                                _ => false,
                            };
                            if !ok {
                                acc.violation(Violation {
                                    prop: ctx.prop.clone(),
                                    sig: format!("init/{}/builtin-verdict", match want { InitVerdict::Ok => "fits", InitVerdict::InvalidSize => "bad-size", InitVerdict::InvalidOffset => "bad-offset" }),
                                    msg: format!("{} ({}x{}), size {w}x{h}, offset ({ox},{oy}), orientation {o}, reset pin {rst}: init returned {:?} ({:?}) after {} pin/bus operations, specification {:?}", info.name, fw, fh, res.as_ref().map(|r| r.as_ref().map(|_| "Ok")), out, bb.ops, want),
                                    case: json!({"kind": "init", "variant": ctx.variant, "cfg": cfg, "which": 11}),
                                });
                            }
                            acc.count("builtin_model_inits", 1);
                        }
                    }
                }
            }
            acc
        })
        .reduce(Acc::new, Acc::merge);
    acc = acc.merge(b);
    acc.states = SIZES.len() as u64 * 2;
    // thorough: complete u16^2 sweeps of one dimension
    if !quick {
        let sweeps: Vec<(u16, u16, bool, u32)> = [(240u16, 320u16), (65535, 65535), (1, 1)]
            .iter()
            .flat_map(|&(fw, fh)| [false, true].into_iter().flat_map(move |horizontal| (0..64u32).map(move |k| (fw, fh, horizontal, k))))
            .collect();
        let a = sweeps
            .par_iter()
            .fold(Acc::new, |mut acc, &(fw, fh, horizontal, k)| {
                // other dimension: valid, and offset-overflowing
                for other_bad in [false, true] {
                    for a in (k * 1024)..(k * 1024 + 1024) {
                        for b in 0..=65535u32 {
                            let (w, h, ox, oy) = if horizontal {
                                (a as u16, if other_bad { fh } else { 1.max(fh / 2) }, b as u16, if other_bad { 1 } else { 0 })
                            } else {
                                (if other_bad { fw } else { 1.max(fw / 2) }, a as u16, if other_bad { 1 } else { 0 }, b as u16)
                            };
                            let (_, f) = check_init(fw, fh, w, h, ox, oy, b & 1 == 1);
                            acc.evaluations += 1;
                            if let Some((sig, msg)) = f {
                                acc.violation(Violation { prop: ctx.prop.clone(), sig, msg, case: json!({"kind": "c09", "variant": ctx.variant, "fb": [fw, fh], "win": [w, h, ox, oy], "rst": b & 1 == 1}) });
                            }
                        }
                    }
                }
                acc.count("full_u16_square_slices", 1);
                acc
            })
            .reduce(Acc::new, Acc::merge);
        acc = acc.merge(a);
    }
    acc.transitions = acc.evaluations;
    acc.traces = acc.evaluations;
    acc.n_outcomes = 3;
    acc.sample(json!({"fb": [240, 320], "win": [240, 310, 0, 11], "rst": true, "expected": "InvalidDisplayOffset, nothing touched"}));
    acc.sample(json!({"fb": [65535, 65535], "win": [32768, 1, 32768, 65534], "rst": false, "expected": "InvalidDisplayOffset (no u16 wrap)"}));
    let bounds = json!({"framebuffer_sizes": SIZES, "lattice_example_F240": dim_lattice(240), "reset_pin": [false, true], "full_sweeps": !quick});
    let mut part = Part::new(ctx, acc, bounds, true, t0.elapsed().as_secs_f64());
    part.acc.n_outcomes = 3;
    part.require("accepted", 100);
    part.require("rejected_size", 100);
    part.require("rejected_offset", 100);
    part
}

pub fn replay(case: &serde_json::Value) -> i32 {
    let g = |k: &str, i: usize| case[k][i].as_u64().unwrap() as u16;
    let (v, f) = check_init_o(g("fb", 0), g("fb", 1), g("win", 0), g("win", 1), g("win", 2), g("win", 3), case["rst"].as_bool().unwrap(), case["opt"].as_u64().unwrap_or(0) as u8);
    println!("specification verdict: {v:?}");
    match f {
        Some((s, m)) => {
            println!("REPLAY: {s} -- {m}");
            1
        }
        None => {
            println!("REPLAY: passes");
            0
        }
    }
}
