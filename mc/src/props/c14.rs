//! C14 - address-mode byte is the exact MIPI encoding of colour/orientation/refresh order
use std::time::Instant;

use mipidsi::dcs::{DcsCommand, InterfaceExt, SetAddressMode};
use mipidsi::options::{ColorOrder, ModelOptions};
use serde_json::json;

use super::Entry;
use crate::dut::*;
use crate::e1::{self, Sys};
use crate::env::*;
use crate::report::*;
use crate::spec::madctl_spec;

pub const ENTRY: Entry = Entry {
    id: "C14",
    variants: &["batch"],
    level: "model_checking",
    rule: "complete explicit-state closure (stateright BFS) over the real SetAddressMode API: initial states = default(), all 64 \
           new(colour, orientation, refresh) and all 64 From<&ModelOptions>; actions = with_color_order (2), with_orientation (8), \
           with_refresh_order (4); every transition replays the setter chain on the real type. State = (byte, last value given for \
           each input). Per transition: only the setter's own bits change; per state: byte == MIPI table (B7 MY, B6 MX, B5 MV derived \
           from the C01 geometry, B4 bottom-to-top, B3 BGR, B2 right-to-left, B1..0 zero) of the last values, hence order \
           independence; the byte put on the bus by write_command equals fill_params_buf; and the 0x36 parameter actually \
           sent by every built-in model's init and by every later set_orientation (after scroll / tearing settings; also one that follows a set_orientation whose bus operation failed) is that encoding. Non-trivial = transitions that change the byte.",
    assumptions: &["MY/MX/MV per orientation are derived from the geometric specification (spec.rs), not from the driver's table"],
    run,
};

#[derive(Clone)]
struct Sys14;
// root r: 0 = default(); 1..=64 = new(..); 65..=128 = From<&ModelOptions>
fn fields(r: usize) -> (bool, u8, u8) {
    if r == 0 {
        (false, 0, 0)
    } else {
        let k = (r - 1) % 64;
        (k & 1 != 0, ((k >> 1) & 7) as u8, ((k >> 4) & 3) as u8)
    }
}
fn build_root(r: usize) -> SetAddressMode {
    let (bgr, o, rf) = fields(r);
    let co = if bgr { ColorOrder::Bgr } else { ColorOrder::Rgb };
    if r == 0 {
        SetAddressMode::default()
    } else if r <= 64 {
        SetAddressMode::new(co, orient_of(o), refresh_of(rf))
    } else {
        let mut m = ModelOptions::with_all((1, 1), (0, 0));
        m.color_order = co;
        m.orientation = orient_of(o);
        m.refresh_order = refresh_of(rf);
        SetAddressMode::from(&m)
    }
}
impl Sys for Sys14 {
    fn roots(&self) -> usize {
        129
    }
    fn root_in_key(&self) -> bool {
        false
    }
    fn actions(&self, _r: usize) -> Vec<u32> {
        (0..14).collect()
    }
    fn max_depth(&self) -> usize {
        6
    }
    fn exec(&self, root: usize, hist: &[u32]) -> (Vec<u64>, Option<String>) {
        let mut m = build_root(root);
        let (mut bgr, mut o, mut rf) = fields(root);
        let mut bad = None;
        for (i, &a) in hist.iter().enumerate() {
            let before = madctl_byte(m);
            let (name, mask): (&str, u8) = match a {
                0 | 1 => {
                    bgr = a == 1;
                    m = m.with_color_order(if bgr { ColorOrder::Bgr } else { ColorOrder::Rgb });
                    ("with_color_order", 0x08)
                }
                2..=9 => {
                    o = (a - 2) as u8;
                    m = m.with_orientation(orient_of(o));
                    ("with_orientation", 0xE0)
                }
                _ => {
                    rf = (a - 10) as u8;
                    m = m.with_refresh_order(refresh_of(rf));
                    ("with_refresh_order", 0x14)
                }
            };
            let after = madctl_byte(m);
            if (before ^ after) & !mask != 0 {
                bad = Some(format!("{name}/foreign-bits-changed|{before:08b} -> {after:08b}: bits outside {mask:08b} changed"));
                break;
            }
            if before != after && i + 1 == hist.len() {
                e1::flag();
            }
        }
        let byte = madctl_byte(m);
        if bad.is_none() {
            let want = madctl_spec(bgr, o, rf);
            if byte != want {
                bad = Some(format!("encoding/byte|byte {byte:08b}, MIPI encoding of (bgr {bgr}, orientation {o}, refresh {rf}) is {want:08b}"));
            } else if m.instruction() != 0x36 {
                bad = Some(format!("encoding/opcode|instruction {:02x}", m.instruction()));
            } else {
                // on the bus
                let bd = Board::new(Board::default_levels());
                let mut di = RecSerial::new(&bd);
                let _ = di.write_command(m);
                let b = bd.borrow();
                let ok = matches!(b.evs.as_slice(), [Ev::Cmd { op: 0x36, len: 1, .. }]) && b.bytes == [byte];
                if !ok {
                    bad = Some(format!("encoding/bus|write_command put {:?} / {:02x?} on the bus", b.evs, b.bytes));
                }
            }
        }
        (vec![byte as u64, bgr as u64, o as u64, rf as u64], bad)
    }
}

fn run(ctx: &Ctx) -> Part {
    let t0 = Instant::now();
    let mut acc = Acc::new();
    match e1::close_checked(Sys14, 16) {
        Err(e) => {
            eprintln!("MACHINERY: {e}");
            std::process::exit(2);
        }
        Ok(c) => {
            acc.states = c.unique_states;
            acc.transitions = c.transitions;
            acc.evaluations = c.transitions + 129;
            acc.traces = acc.evaluations;
            acc.nontrivial = c.flagged;
            acc.count("max_depth", c.max_depth);
            acc.sample(json!({"root": "SetAddressMode::new(Bgr, Deg270 mirrored, BottomToTop/RightToLeft)", "history": ["with_orientation(Deg0)", "with_color_order(Rgb)"]}));
            if let Some((root, hist, msg)) = c.counterexample {
                let (sig, text) = msg.split_once('|').unwrap_or(("c14", &msg));
                acc.violation(Violation {
                    prop: ctx.prop.clone(),
                    sig: sig.to_string(),
                    msg: format!("{text} [root {root}, setters {hist:?}]"),
                    case: json!({"kind": "c14", "variant": ctx.variant, "root": root, "actions": hist}),
                });
            }
        }
    }
    // ---- on the bus: the parameter of command 0x36 as sent by every built-in model's init and by every
    // following set_orientation, for all 2 x 8 x 4 input combinations (and the hard-wired external model)
    if acc.viols.is_empty() {
        use crate::rig::*;
        use rayon::prelude::*;
        let mut cfgs = Vec::new();
        for (i, info) in BUILTINS.iter().enumerate() {
            let tr = if info.supports[0] { Transport::RecSerial } else { Transport::RecPar8 };
            for k in 0..64u8 {
                cfgs.push(Cfg { model: ModelId::Builtin(i as u8), tr, win: Some((4, 4, 1, 2)), orient: (k >> 1) & 7, bgr: k & 1 != 0, invert: false, refresh: k >> 4, rst: false, flags: 0 });
            }
        }
        for k in 0..64u8 {
            cfgs.push(Cfg { model: ModelId::Fixed43, tr: Transport::RecSerial, win: Some((3, 2, 1, 0)), orient: (k >> 1) & 7, bgr: k & 1 != 0, invert: false, refresh: k >> 4, rst: false, flags: 0 });
        }
        let a = cfgs
            .par_iter()
            .fold(Acc::new, |mut acc, cfg| {
                let mut rig = Rig::new(cfg);
                let fixed = cfg.model == ModelId::Fixed43;
                let name = match cfg.model {
                    ModelId::Builtin(i) => BUILTINS[i as usize].name,
                    _ => "external model returning MADCTL 0x00",
                };
                let spec = |o: u8| if fixed { madctl_spec(false, o, 0) } else { madctl_spec(cfg.bgr, o, cfg.refresh) };
                acc.evaluations += 1;
                let mut bad: Option<String> = None;
                if !rig.init.is_ok() {
                    bad = Some(format!("init {:?}", rig.init));
                } else if !fixed && rig.ctl.madctl != spec(cfg.orient) {
                    bad = Some(format!("init sent MADCTL {:08b}, encoding of the inputs is {:08b}", rig.ctl.madctl, spec(cfg.orient)));
                } else {
                    // other settings first (scroll offset at / beyond the framebuffer height, scroll region, tearing
                    // effect): state they leave behind must not leak into the address mode
                    let fbh = cfg.fb().1;
                    let pre = [Op::ScrollRegion(1, 2), Op::ScrollOffset(if cfg.orient % 2 == 0 { fbh } else { 65535 }), Op::Tearing(1 + cfg.refresh % 2)];
                    for p in &pre {
                        if !rig.apply(p).is_ok() {
                            bad = Some(format!("{p:?} failed"));
                        }
                    }
                    // two rounds: every orientation after every other one (history independence)
                    'o: for o1 in 0..8u8 {
                        for o2 in [o1, (o1 + 3) % 8] {
                            acc.evaluations += 1;
                            acc.nontrivial += 1;
                            let out = rig.apply(&Op::SetOrientation(o2));
                            if !out.is_ok() || rig.ctl.madctl != spec(o2) {
                                bad = Some(format!("set_orientation({o2}) after {o1}: outcome {out:?}, MADCTL on the bus {:08b}, encoding of the inputs is {:08b}", rig.ctl.madctl, spec(o2)));
                                break 'o;
                            }
                        }
                    }
                    // a set_orientation whose command fails, then one that goes through: the byte on the bus is
                    // still the encoding of (configured colour order, new orientation, configured refresh order)
                    if bad.is_none() {
                        for o1 in 0..8u8 {
                            let o2 = (o1 + 5) % 8;
                            acc.evaluations += 1;
                            acc.nontrivial += 1;
                            let at = rig.ops();
                            rig.set_faults(&[Fault { at, mode: FaultMode::Unchanged }]);
                            let failed = rig.apply(&Op::SetOrientation(o1));
                            rig.set_faults(&[]);
                            let out = rig.apply(&Op::SetOrientation(o2));
                            acc.count("orientation_after_failed_orientation", 1);
                            if !out.is_ok() || rig.ctl.madctl != spec(o2) {
                                bad = Some(format!("set_orientation({o1}) with its bus operation failing ({failed:?}), then set_orientation({o2}): outcome {out:?}, MADCTL on the bus {:08b}, encoding of the inputs is {:08b}", rig.ctl.madctl, spec(o2)));
                                break;
                            }
                        }
                    }
                }
                if let Some(m) = bad {
                    acc.violation(Violation {
                        prop: ctx.prop.clone(),
                        sig: "bus/0x36-parameter".into(),
                        msg: format!("{name} (bgr {}, orientation {}, refresh {}): {m}", cfg.bgr, cfg.orient, cfg.refresh),
                        case: json!({"kind": "c14bus", "variant": ctx.variant, "cfg": cfg}),
                    });
                }
                acc.count("bus_level_configurations", 1);
                acc
            })
            .reduce(Acc::new, Acc::merge);
        let (st, tr) = (acc.states, acc.transitions);
        acc = acc.merge(a);
        acc.states = st;
        acc.transitions = tr;
        acc.traces = acc.evaluations;
    }
    let bounds = json!({"roots": 129, "actions": 14, "complete": true, "bus_level": "14 built-in models + hard-wired external model x 64 input combinations x 16 set_orientation calls"});
    let mut part = Part::new(ctx, acc, bounds, true, t0.elapsed().as_secs_f64());
    part.acc.n_outcomes = part.acc.states;
    part
}

pub fn replay(case: &serde_json::Value) -> i32 {
    let root = case["root"].as_u64().unwrap() as usize;
    let actions: Vec<u32> = serde_json::from_value(case["actions"].clone()).unwrap();
    let (key, bad) = Sys14.exec(root, &actions);
    println!("root {root} (fields {:?}), setters {actions:?} -> byte {:08b}", fields(root), key[0]);
    match bad {
        Some(m) => {
            println!("REPLAY: {m}");
            1
        }
        None => {
            println!("REPLAY: passes");
            0
        }
    }
}

pub fn replay_bus(case: &serde_json::Value) -> i32 {
    use crate::rig::*;
    let cfg: Cfg = serde_json::from_value(case["cfg"].clone()).unwrap();
    let mut rig = Rig::new(&cfg);
    println!("init {:?}: MADCTL on the bus {:08b}", rig.init, rig.ctl.madctl);
    let fbh = cfg.fb().1;
    for p in [Op::ScrollRegion(1, 2), Op::ScrollOffset(if cfg.orient % 2 == 0 { fbh } else { 65535 }), Op::Tearing(1 + cfg.refresh % 2)] {
        println!("{p:?} -> {:?}", rig.apply(&p));
    }
    for o1 in 0..8u8 {
        for o2 in [o1, (o1 + 3) % 8] {
            let out = rig.apply(&Op::SetOrientation(o2));
            println!("set_orientation({o2}) -> {out:?}: MADCTL {:08b} (specification for the built-in models {:08b})", rig.ctl.madctl, madctl_spec(cfg.bgr, o2, cfg.refresh));
        }
    }
    0
}
