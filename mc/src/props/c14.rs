//! C14 - address-mode byte is the exact MIPI encoding of colour/orientation/refresh order
use std::time::Instant;

use mipidsi::dcs::{DcsCommand, InterfaceExt, SetAddressMode};
use mipidsi::options::{ColorOrder, ModelOptions};
use serde_json::json;

use super::Entry;
use crate::dut::*;
use crate::e1::{self, Sys};
use crate::env::*;
use crate::report::*;
use crate::spec::madctl_spec;

pub const ENTRY: Entry = Entry {
    id: "C14",
    variants: &["batch"],
    level: "model_checking",
    rule: "complete explicit-state closure (stateright BFS) over the real SetAddressMode API: initial states = default(), all 64 \
           new(colour, orientation, refresh) and all 64 From<&ModelOptions>; actions = with_color_order (2), with_orientation (8), \
           with_refresh_order (4); every transition replays the setter chain on the real type. State = (byte, last value given for \
           each input). Per transition: only the setter's own bits change; per state: byte == MIPI table (B7 MY, B6 MX, B5 MV derived \
           from the C01 geometry, B4 bottom-to-top, B3 BGR, B2 right-to-left, B1..0 zero) of the last values, hence order \
           independence; the byte put on the bus by write_command equals fill_params_buf. Non-trivial = transitions that change the byte.",
    assumptions: &["MY/MX/MV per orientation are derived from the geometric specification (spec.rs), not from the driver's table"],
    run,
};

#[derive(Clone)]
struct Sys14;
// root r: 0 = default(); 1..=64 = new(..); 65..=128 = From<&ModelOptions>
fn fields(r: usize) -> (bool, u8, u8) {
    if r == 0 {
        (false, 0, 0)
    } else {
        let k = (r - 1) % 64;
        (k & 1 != 0, ((k >> 1) & 7) as u8, ((k >> 4) & 3) as u8)
    }
}
fn build_root(r: usize) -> SetAddressMode {
    let (bgr, o, rf) = fields(r);
    let co = if bgr { ColorOrder::Bgr } else { ColorOrder::Rgb };
    if r == 0 {
        SetAddressMode::default()
    } else if r <= 64 {
        SetAddressMode::new(co, orient_of(o), refresh_of(rf))
    } else {
        let mut m = ModelOptions::with_all((1, 1), (0, 0));
        m.color_order = co;
        m.orientation = orient_of(o);
        m.refresh_order = refresh_of(rf);
        SetAddressMode::from(&m)
    }
}
impl Sys for Sys14 {
    fn roots(&self) -> usize {
        129
    }
    fn root_in_key(&self) -> bool {
        false
    }
    fn actions(&self, _r: usize) -> Vec<u32> {
        (0..14).collect()
    }
    fn max_depth(&self) -> usize {
        6
    }
    fn exec(&self, root: usize, hist: &[u32]) -> (Vec<u64>, Option<String>) {
        let mut m = build_root(root);
        let (mut bgr, mut o, mut rf) = fields(root);
        let mut bad = None;
        for (i, &a) in hist.iter().enumerate() {
            let before = madctl_byte(m);
            let (name, mask): (&str, u8) = match a {
                0 | 1 => {
                    bgr = a == 1;
                    m = m.with_color_order(if bgr { ColorOrder::Bgr } else { ColorOrder::Rgb });
                    ("with_color_order", 0x08)
                }
                2..=9 => {
                    o = (a - 2) as u8;
                    m = m.with_orientation(orient_of(o));
                    ("with_orientation", 0xE0)
                }
                _ => {
                    rf = (a - 10) as u8;
                    m = m.with_refresh_order(refresh_of(rf));
                    ("with_refresh_order", 0x14)
                }
            };
            let after = madctl_byte(m);
            if (before ^ after) & !mask != 0 {
                bad = Some(format!("{name}/foreign-bits-changed|{before:08b} -> {after:08b}: bits outside {mask:08b} changed"));
                break;
            }
            if before != after && i + 1 == hist.len() {
                e1::flag();
            }
        }
        let byte = madctl_byte(m);
        if bad.is_none() {
            let want = madctl_spec(bgr, o, rf);
            if byte != want {
                bad = Some(format!("encoding/byte|byte {byte:08b}, MIPI encoding of (bgr {bgr}, orientation {o}, refresh {rf}) is {want:08b}"));
            } else if m.instruction() != 0x36 {
                bad = Some(format!("encoding/opcode|instruction {:02x}", m.instruction()));
            } else {
                // on the bus
                let bd = Board::new(Board::default_levels());
                let mut di = RecSerial::new(&bd);
                let _ = di.write_command(m);
                let b = bd.borrow();
                let ok = matches!(b.evs.as_slice(), [Ev::Cmd { op: 0x36, len: 1, .. }]) && b.bytes == [byte];
                if !ok {
                    bad = Some(format!("encoding/bus|write_command put {:?} / {:02x?} on the bus", b.evs, b.bytes));
                }
            }
        }
        (vec![byte as u64, bgr as u64, o as u64, rf as u64], bad)
    }
}

fn run(ctx: &Ctx) -> Part {
    let t0 = Instant::now();
    let mut acc = Acc::new();
    match e1::close_checked(Sys14, 16) {
        Err(e) => {
            eprintln!("MACHINERY: {e}");
            std::process::exit(2);
        }
        Ok(c) => {
            acc.states = c.unique_states;
            acc.transitions = c.transitions;
            acc.evaluations = c.transitions + 129;
            acc.traces = acc.evaluations;
            acc.nontrivial = c.flagged;
            acc.count("max_depth", c.max_depth);
            acc.sample(json!({"root": "SetAddressMode::new(Bgr, Deg270 mirrored, BottomToTop/RightToLeft)", "history": ["with_orientation(Deg0)", "with_color_order(Rgb)"]}));
            if let Some((root, hist, msg)) = c.counterexample {
                let (sig, text) = msg.split_once('|').unwrap_or(("c14", &msg));
                acc.violation(Violation {
                    prop: ctx.prop.clone(),
                    sig: sig.to_string(),
                    msg: format!("{text} [root {root}, setters {hist:?}]"),
                    case: json!({"kind": "c14", "variant": ctx.variant, "root": root, "actions": hist}),
                });
            }
        }
    }
    let bounds = json!({"roots": 129, "actions": 14, "complete": true});
    let mut part = Part::new(ctx, acc, bounds, true, t0.elapsed().as_secs_f64());
    part.acc.n_outcomes = part.acc.states;
    part
}

pub fn replay(case: &serde_json::Value) -> i32 {
    let root = case["root"].as_u64().unwrap() as usize;
    let actions: Vec<u32> = serde_json::from_value(case["actions"].clone()).unwrap();
    let (key, bad) = Sys14.exec(root, &actions);
    println!("root {root} (fields {:?}), setters {actions:?} -> byte {:08b}", fields(root), key[0]);
    match bad {
        Some(m) => {
            println!("REPLAY: {m}");
            1
        }
        None => {
            println!("REPLAY: passes");
            0
        }
    }
}
