//! C12 - a failing pin or bus operation is reported, stops the call, wedges nothing
use std::time::Instant;

use rayon::prelude::*;
use serde_json::json;

use super::Entry;
use crate::ctl::UNWRITTEN;
use crate::dut::*;
use crate::env::*;
use crate::report::*;
use crate::rig::*;
use crate::spec::Canvas;

pub const ENTRY: Entry = Entry {
    id: "C12",
    variants: &["batch", "nobatch"],
    level: "fault_enumeration",
    rule: "deviation-bounded fault enumeration on the real transports (SPI with a 7-byte buffer, 8-bit and 16-bit parallel GPIO): for \
           every driver operation (Builder::init of every built-in model on every supported transport with and without reset pin; \
           set_pixel, set_pixels, multi-block draw_iter, fill_solid with equal and differing words, clipped fill_contiguous, clear, \
           set_orientation, both scroll calls, three tearing settings, sleep, wake - the last also after a successful sleep) the \
           fault-free run is counted (n low-level operations) and then re-run once per k < n with exactly the k-th pin/SPI operation \
           failing (for data pins in both physical outcomes: level unchanged / level changed although an error was reported); \
           thorough adds a second fault at every index of the follow-up. Oracle: Err whose variant names the failing component and \
           carries the injected error; no panic; no further low-level operation after the failure; then, fault cleared, clear + \
           set_pixel on the same object make the panel window equal to the canvas and touch nothing outside it (also after \
           retrying the very same call without a fault, which must succeed and take full effect; a failed init is retried \
           through the same lent interface and must then satisfy the C11/C17 oracles); is_sleeping() reflects \
           the last successful sleep/wake. Non-trivial = every injected fault that fired (each is a distinct (operation, k, mode)).",
    assumptions: &[
        "a failed operation is not seen by the device (a failed strobe latches nothing, a failed SPI write delivers nothing)",
        "a failed data pin may or may not have changed level; both are enumerated",
    ],
    run,
};

fn expect_class(tr: Transport, src: u8, op: u64) -> ErrClass {
    match (tr, src) {
        (_, PIN_RST) => ErrClass::InitResetPin { op },
        (Transport::Spi { .. }, 100) => ErrClass::SpiSpi { op },
        (Transport::Spi { .. }, PIN_DC) => ErrClass::SpiDc { op },
        (_, PIN_DC) => ErrClass::ParDc { op },
        (_, PIN_WR) => ErrClass::ParWr { op },
        (_, p) if p < 16 => ErrClass::ParBus { pin: p, op },
        _ => ErrClass::OtherConfig,
    }
}

fn src_name(src: u8) -> String {
    match src {
        100 => "SPI write".into(),
        p => format!("pin {}", pin_name(p)),
    }
}

// ---- part A: initialisation ------------------------------------------------------------------------

fn init_faults(ctx: &Ctx, acc: &mut Acc, cfg: &Cfg) {
    let base = init_run(cfg, &[]);
    if !base.out.is_ok() {
        return; // unsupported pairing: nothing to inject into (C11 checks the refusal)
    }
    let n = base.bd.borrow().ops;
    acc.count("init_sequences", 1);
    for k in 0..n {
        let mut modes = vec![FaultMode::Unchanged];
        let mut mi = 0;
        while mi < modes.len() {
            let mode = modes[mi];
            mi += 1;
            let r = init_run(cfg, &[Fault { at: k, mode }]);
            acc.evaluations += 1;
            let b = r.bd.borrow();
            let fired = b.failed_ops.clone();
            let mut bad: Option<(String, String)> = None;
            let name = match cfg.model {
                ModelId::Builtin(i) => BUILTINS[i as usize].name,
                _ => "Tiny",
            };
            let mk = |kind: &str, m: String| Some((format!("init/{kind}"), format!("{name} on {:?} (rst {}), fault at low-level operation {k} ({mode:?}): {m}", cfg.tr, cfg.rst)));
            if fired.len() != 1 || fired[0].0 != k {
                bad = mk("fault-not-fired", format!("fired {fired:?}"));
            } else {
                let src = fired[0].1;
                acc.nontrivial += 1;
                if src < 16 && mode == FaultMode::Unchanged {
                    modes.push(FaultMode::Changed);
                }
                let inner = expect_class(cfg.tr, src, k);
                let want = if src == PIN_RST { inner } else { ErrClass::InitInterface(Box::new(inner)) };
                match &r.out {
                    Outcome::Err(e) if *e == want => {
                        acc.count(&format!("variant:{}", variant_name(&want)), 1);
                    }
                    Outcome::Panic(m) => bad = mk("panic", m.clone()),
                    o => bad = mk("wrong-error", format!("{} failed; init returned {o:?}, expected Err({want:?})", src_name(src))),
                }
                if bad.is_none() && b.ops != k + 1 {
                    bad = mk("operations-after-failure", format!("{} further low-level operations after the failure", b.ops - k - 1));
                }
            }
            // "wedges nothing": initialise again through the same (lent) interface once the fault has cleared
            if bad.is_none() && mode == FaultMode::Unchanged {
                drop(b);
                let (first, retry) = init_run_retry(cfg, &[Fault { at: k, mode }]);
                acc.count("init_retries", 1);
                let mk2 = |kind: &str, m: String| Some((format!("init/retry/{kind}"), format!("{name} on {:?} (rst {}), first attempt failed at low-level operation {k}, then initialised again through the same interface: {m}", cfg.tr, cfg.rst)));
                if first.is_ok() {
                    bad = mk2("first-attempt", "the faulted first attempt returned Ok".into());
                } else if let Some((s, m)) = super::c11::check_c11(&retry) {
                    bad = mk2(&s.replace('/', "-"), m);
                } else if let Some((s, m)) = super::c11::check_c17(&retry) {
                    bad = mk2(&s.replace('/', "-"), m);
                }
            }
            if let Some((sig, msg)) = bad {
                acc.violation(Violation { prop: ctx.prop.clone(), sig, msg, case: json!({"kind": "c12-init", "variant": ctx.variant, "cfg": cfg, "k": k, "mode": mode}) });
            }
        }
    }
}

fn variant_name(e: &ErrClass) -> String {
    match e {
        ErrClass::SpiSpi { .. } => "SpiError::Spi".into(),
        ErrClass::SpiDc { .. } => "SpiError::Dc".into(),
        ErrClass::ParBus { .. } => "ParallelError::Bus".into(),
        ErrClass::ParDc { .. } => "ParallelError::Dc".into(),
        ErrClass::ParWr { .. } => "ParallelError::Wr".into(),
        ErrClass::InitResetPin { .. } => "InitError::ResetPin".into(),
        ErrClass::InitInterface(i) => format!("InitError::Interface({})", variant_name(i)),
        o => format!("{o:?}"),
    }
}

// ---- part B: operations after init -------------------------------------------------------------------

pub fn op_alphabet(lw: u32, lh: u32) -> Vec<(Vec<Op>, Op)> {
    let full = Rect { x: 0, y: 0, w: lw, h: lh };
    let mut v: Vec<(Vec<Op>, Op)> = vec![
        (vec![], Op::SetPixel { x: 1, y: 1, c: 0x1234 }),
        (vec![], Op::SetPixels { sx: 0, sy: 0, ex: 2, ey: 1, colors: Colors::Coded { base: 0x0100, len: Some(6) } }),
        // two separate blocks (a run, a gap, another row)
        (vec![], Op::DrawIter(Pixels::Syms { syms: vec![Sym::Run { x: 0, y: 0, len: 3, rev: false }, Sym::Px { x: 2, y: 2 }, Sym::Block { x: 1, y: 1, w: 2, h: 2 }], base: 0x0200 })),
        (vec![], Op::FillSolid { r: Rect { x: 1, y: 0, w: 2, h: 2 }, c: 0x0000 }), // equal words: strobe-only repeat on parallel
        (vec![], Op::FillSolid { r: Rect { x: 0, y: 1, w: 3, h: 2 }, c: 0x12F3 }), // differing words
        (vec![], Op::FillContiguous { r: Rect { x: -1, y: -1, w: 4, h: 3 }, colors: Colors::Coded { base: 0x0300, len: None } }),
        (vec![], Op::FillContiguous { r: full, colors: Colors::Coded { base: 0x0400, len: Some((lw * lh) as u64) } }),
        (vec![], Op::Clear { c: 0xFFFF }),
        (vec![], Op::SetOrientation(3)),
        (vec![], Op::SetOrientation(4)),
        (vec![], Op::ScrollRegion(1, 2)),
        (vec![], Op::ScrollOffset(0x0102)),
        (vec![], Op::Tearing(0)),
        (vec![], Op::Tearing(1)),
        (vec![], Op::Tearing(2)),
        (vec![], Op::Sleep),
        (vec![], Op::Wake),
        (vec![Op::Sleep], Op::Wake),
        (vec![Op::Sleep], Op::Sleep),
        (vec![Op::SetOrientation(5)], Op::Clear { c: 0x00FF }),
        // a solid fill, then a picture that starts with the fill colour and fails, then (follow-up) the same
        // solid fill again: buffer / pattern caches that survive a failed transfer show here
        (vec![Op::Clear { c: 0x0F0F }], Op::SetPixels { sx: 0, sy: 0, ex: 2, ey: 1, colors: Colors::List(vec![0x0F0F, 0x0102, 0x0304, 0x0506, 0x0708, 0x090A]) }),
        (vec![Op::Clear { c: 0x0F0F }], Op::FillContiguous { r: full, colors: Colors::List((0..(lw * lh)).map(|k| if k == 0 { 0x0F0F } else { 0x1000 + k }).collect()) }),
        (vec![Op::Clear { c: 0x0F0F }], Op::DrawIter(Pixels::List(vec![(0, 0, 0x0F0F), (1, 0, 0x0A01), (2, 0, 0x0A02), (0, 1, 0x0A03), (1, 1, 0x0A04), (2, 1, 0x0A05)]))),
    ];
    v.dedup();
    v
}

struct FollowUp {
    fail: Option<(String, String)>,
}

/// clear + set_pixel on the same object; window == canvas, nothing outside touched
fn follow_up(rig: &mut Rig, orient: u8, second_fault: Option<Fault>) -> FollowUp {
    let geo = crate::spec::Geo { orient, ..rig.cfg.geo() };
    let c666 = rig.c666();
    rig.ctl.viols.clear();
    let before = rig.ctl.mem.clone();
    let mk = |k: &str, m: String| FollowUp { fail: Some((format!("follow-up/{k}"), m)) };
    if let Some(f) = second_fault {
        // second deviation: fail the follow-up clear at index k2, then try again fault-free
        let base = rig.ops();
        rig.set_faults(&[Fault { at: base + f.at, mode: f.mode }]);
        let o = rig.apply(&Op::Clear { c: 0x0A0A });
        let fired = rig.bd.borrow().failed_ops.last().cloned();
        rig.set_faults(&[]);
        match (&o, fired) {
            (Outcome::Err(e), Some((at, _))) if at == base + f.at && e.op() == Some(at) => {}
            (Outcome::Ok, Some((at, _))) if at != base + f.at => {} // index beyond the call: no fault fired in it
            (Outcome::Ok, None) => {}
            (o, fr) => return mk("second-fault", format!("second fault at follow-up index {}: outcome {o:?}, fired {fr:?}", f.at)),
        }
        rig.ctl.viols.clear();
    }
    let ops = [Op::Clear { c: 0x0F0F }, Op::SetPixel { x: 0, y: 0, c: 0x1111 }];
    let mut cv = Canvas::new(geo);
    for op in &ops {
        let o = rig.apply(op);
        spec_apply(&mut cv, op, c666);
        if !o.is_ok() {
            return mk("outcome", format!("{} after the fault cleared: {o:?}", op.name()));
        }
    }
    if !rig.ctl.viols.is_empty() {
        return mk("protocol", format!("{:?}", rig.ctl.viols[0]));
    }
    for y in 0..geo.fh {
        for x in 0..geo.fw {
            let got = rig.ctl.mem.get(x, y);
            if geo.in_window(x, y) {
                let want = cv.mem.get(x, y);
                if got != want {
                    return mk("window-differs", format!("cell ({x},{y}) is {got:06x}, canvas {want:06x}"));
                }
            } else if got != before.get(x, y) {
                let f = |v: u32| if v == UNWRITTEN { "untouched".into() } else { format!("{v:06x}") };
                return mk("outside-window-touched", format!("cell ({x},{y}) changed from {} to {}", f(before.get(x, y)), f(got)));
            }
        }
    }
    FollowUp { fail: None }
}

fn op_faults(ctx: &Ctx, acc: &mut Acc, cfg: &Cfg, prefix: &[Op], op: &Op, two: bool) {
    // fault-free run: count the operation's low-level operations
    let mut rig = Rig::new(cfg);
    assert!(rig.init.is_ok());
    for p in prefix {
        assert!(rig.apply(p).is_ok());
    }
    let base = rig.ops();
    let o = rig.apply(op);
    if !o.is_ok() {
        acc.violation(Violation { prop: ctx.prop.clone(), sig: format!("{}/fault-free-failed", op.name()), msg: format!("{o:?}"), case: json!({"kind": "c12-op", "variant": ctx.variant, "cfg": cfg, "prefix": prefix, "op": op, "k": null}) });
        return;
    }
    let n = rig.ops() - base;
    // number of operations of the follow-up clear (for the second fault)
    let n2 = {
        let b2 = rig.ops();
        let _ = rig.apply(&Op::Clear { c: 0x0A0A });
        rig.ops() - b2
    };
    acc.count("operations", 1);
    let mut sleeping_before = false;
    let mut orient = cfg.orient;
    for p in prefix {
        match p {
            Op::Sleep => sleeping_before = true,
            Op::Wake => sleeping_before = false,
            Op::SetOrientation(o) => orient = *o,
            _ => {}
        }
    }
    for k in 0..n {
        let mut modes = vec![FaultMode::Unchanged];
        let mut mi = 0;
        while mi < modes.len() {
            let mode = modes[mi];
            mi += 1;
            let second: Vec<Option<u64>> = if two { std::iter::once(None).chain((0..n2).map(Some)).collect() } else { vec![None] };
            for k2 in second {
                let mut rig = Rig::new(cfg);
                for p in prefix {
                    let _ = rig.apply(p);
                }
                rig.set_faults(&[Fault { at: base + k, mode }]);
                let out = rig.apply(op);
                rig.set_faults(&[]);
                acc.evaluations += 1;
                let fired = rig.bd.borrow().failed_ops.clone();
                let mk = |kind: &str, m: String| Some((format!("{}/{kind}", op.name()), format!("{:?} after {prefix:?} on {:?}, fault at operation index {k} ({mode:?}): {m}", op, cfg.tr)));
                let mut bad = None;
                let mut reported = orient;
                if fired.len() != 1 || fired[0].0 != base + k {
                    bad = mk("fault-not-fired", format!("fired {fired:?}"));
                } else {
                    let src = fired[0].1;
                    if k2.is_none() {
                        acc.nontrivial += 1;
                        if src < 16 && mode == FaultMode::Unchanged {
                            modes.push(FaultMode::Changed);
                        }
                    }
                    let want = expect_class(cfg.tr, src, base + k);
                    match &out {
                        Outcome::Err(e) if *e == want => acc.count(&format!("variant:{}", variant_name(&want)), 1),
                        Outcome::Panic(m) => bad = mk("panic", m.clone()),
                        o => bad = mk("wrong-error", format!("{} failed; the call returned {o:?}, expected Err({want:?})", src_name(src))),
                    }
                    if bad.is_none() && rig.ops() != base + k + 1 {
                        bad = mk("operations-after-failure", format!("{} further low-level operations after the failure", rig.ops() - base - k - 1));
                    }
                    if bad.is_none() {
                        let d = rig.dut.as_ref().unwrap();
                        if d.is_sleeping() != sleeping_before {
                            bad = mk("sleep-flag", format!("is_sleeping() = {} after the failed call, last successful state {}", d.is_sleeping(), sleeping_before));
                        } else {
                            // a failed set_orientation(o) may leave the old orientation or (if the address mode had
                            // already reached the controller) the new one - but what the display reports must be what
                            // the controller holds; any other call must not change it at all
                            let rep = d.orientation();
                            let allowed = rep == orient || matches!(op, Op::SetOrientation(o) if *o == rep);
                            if !allowed {
                                bad = mk("orientation-changed-by-failed-call", format!("orientation() = {rep} after the failed call, was {orient}"));
                            } else if !matches!(cfg.model, ModelId::Fixed43) && rig.ctl.madctl != crate::spec::madctl_spec(cfg.bgr, rep, cfg.refresh) {
                                bad = mk("orientation-inconsistent-after-failed-call", format!("orientation() = {rep} after the failed call but the controller holds MADCTL {:02x}", rig.ctl.madctl));
                            }
                            reported = rep;
                        }
                    }
                    if bad.is_none() && k2.is_none() {
                        // second scenario on a fresh replay of the same failure: retry the very same call,
                        // fault-free, and then draw - the retry must succeed and take full effect
                        let mut r2 = Rig::new(cfg);
                        for p in prefix {
                            let _ = r2.apply(p);
                        }
                        r2.set_faults(&[Fault { at: base + k, mode }]);
                        let _ = r2.apply(op);
                        r2.set_faults(&[]);
                        let o2 = r2.apply(op);
                        let mut orient2 = orient;
                        let mut sleeping2 = sleeping_before;
                        match op {
                            Op::SetOrientation(o) => orient2 = *o,
                            Op::Sleep => sleeping2 = true,
                            Op::Wake => sleeping2 = false,
                            _ => {}
                        }
                        let d2 = r2.dut.as_ref().unwrap();
                        let madctl_want = crate::spec::madctl_spec(cfg.bgr, orient2, cfg.refresh);
                        if !o2.is_ok() {
                            bad = mk("retry-failed", format!("the same call, retried without a fault, returned {o2:?}"));
                        } else if matches!(op, Op::SetOrientation(_)) && matches!(cfg.model, ModelId::Tiny { .. }) && r2.ctl.madctl != madctl_want {
                            bad = mk("retry-madctl", format!("after the failed and then repeated set_orientation the controller holds MADCTL {:02x}, the encoding of (colour order, orientation {orient2}, refresh order) is {madctl_want:02x}", r2.ctl.madctl));
                        } else if d2.orientation() != orient2 || d2.is_sleeping() != sleeping2 {
                            bad = mk("retry-without-effect", format!("after a successful retry orientation() = {} (expected {orient2}), is_sleeping() = {} (expected {sleeping2})", d2.orientation(), d2.is_sleeping()));
                        } else {
                            let geo2 = crate::spec::Geo { orient: orient2, ..cfg.geo() };
                            let (lw2, lh2) = geo2.lsize();
                            if d2.size() != (lw2, lh2) {
                                bad = mk("retry-without-effect", format!("after a successful retry size() = {:?}, expected {lw2}x{lh2}", d2.size()));
                            } else if let Some((s, m)) = follow_up(&mut r2, orient2, None).fail {
                                bad = Some((format!("{}/retry/{s}", op.name()), format!("{:?} on {:?}, fault at index {k} ({mode:?}), then retried: {m}", op, cfg.tr)));
                            }
                        }
                        acc.count("retries_after_failure", 1);
                    }
                    if bad.is_none() {
                        let f2 = k2.map(|at| Fault { at, mode: FaultMode::Unchanged });
                        if let Some((s, m)) = follow_up(&mut rig, reported, f2).fail {
                            bad = Some((format!("{}/{s}", op.name()), format!("{:?} on {:?}, fault at index {k} ({mode:?}, {}), second fault {k2:?}: {m}", op, cfg.tr, src_name(src))));
                        }
                    }
                }
                if let Some((sig, msg)) = bad {
                    acc.violation(Violation {
                        prop: ctx.prop.clone(),
                        sig,
                        msg,
                        case: json!({"kind": "c12-op", "variant": ctx.variant, "cfg": cfg, "prefix": prefix, "op": op, "k": k, "mode": mode, "k2": k2}),
                    });
                }
            }
        }
    }
}

pub const REAL: [Transport; 3] = [Transport::Spi { len: 7 }, Transport::Par8, Transport::Par16];

fn run(ctx: &Ctx) -> Part {
    let t0 = Instant::now();
    let quick = ctx.quick();
    // part A
    let mut init_cfgs = Vec::new();
    for (i, info) in BUILTINS.iter().enumerate() {
        for tr in REAL {
            if info.c666 && tr.bus16() {
                continue;
            }
            for rst in [false, true] {
                let opts: &[(u8, bool, bool, u8)] = if quick { &[(3, true, true, 2)] } else { &[(3, true, true, 2), (0, false, false, 0), (6, false, true, 1)] };
                for &(orient, bgr, invert, refresh) in opts {
                    init_cfgs.push(Cfg { model: ModelId::Builtin(i as u8), tr, win: None, orient, bgr, invert, refresh, rst, flags: 0 });
                }
            }
        }
    }
    let a = init_cfgs
        .par_iter()
        .fold(Acc::new, |mut acc, cfg| {
            init_faults(ctx, &mut acc, cfg);
            acc
        })
        .reduce(Acc::new, Acc::merge);
    // part B
    let mut jobs: Vec<(Cfg, Vec<Op>, Op)> = Vec::new();
    for tr in REAL {
        let mut c0 = Cfg::tiny(8, 6, false, tr, (4, 3, 2, 1), 1);
        c0.bgr = true;
        c0.refresh = 3;
        let mut cfgs = vec![c0];
        if !tr.bus16() {
            cfgs.push(Cfg::tiny(4, 3, true, tr, (3, 3, 1, 0), 6));
        }
        if !quick {
            cfgs.push(Cfg::tiny(8, 6, false, tr, (3, 4, 5, 0), 4));
        }
        // one built-in model with a small window (through the model's own type, not the Any8 wrapper)
        cfgs.push(Cfg { model: ModelId::Builtin(12), tr, win: Some((5, 4, 2, 3)), orient: 2, bgr: false, invert: false, refresh: 0, rst: false, flags: 0 });
        for cfg in cfgs {
            let (lw, lh) = cfg.geo().lsize();
            for (prefix, op) in op_alphabet(lw, lh) {
                jobs.push((cfg, prefix, op));
            }
        }
    }
    let b = jobs
        .par_iter()
        .fold(Acc::new, |mut acc, (cfg, prefix, op)| {
            op_faults(ctx, &mut acc, cfg, prefix, op, !quick);
            acc
        })
        .reduce(Acc::new, Acc::merge);
    let mut acc = a.merge(b);
    acc.transitions = acc.evaluations;
    acc.traces = acc.evaluations;
    // part C: a solid fill of more than 65535 bus words on the parallel transports (strobe-only loops that count in
    // blocks) with one strobe / pin operation failing at various depths: nothing may follow the failure
    {
        let big: Vec<(Transport, u32, u32, u32)> = vec![(Transport::Par8, 40000, 1, 0x0000), (Transport::Par8, 35000, 1, 0x1234), (Transport::Par16, 40000, 2, 0xFFFF)];
        let mut bjobs = Vec::new();
        for &(tr, w, h, c) in &big {
            for k in [5u64, 1000, 1001, 70_001, 131_073, 140_000, 159_998] {
                bjobs.push((tr, w, h, c, k));
            }
        }
        let c = bjobs
            .par_iter()
            .fold(Acc::new, |mut acc, &(tr, w, h, colour, k)| {
                let cfg = Cfg::tiny(65535, 65535, false, tr, (65535, 65535, 0, 0), 0);
                let op = Op::FillSolid { r: crate::dut::Rect { x: 0, y: 0, w, h }, c: colour };
                let mut rig = Rig::new(&cfg);
                let base = rig.ops();
                rig.set_faults(&[Fault { at: base + k, mode: FaultMode::Unchanged }]);
                let out = rig.apply(&op);
                rig.set_faults(&[]);
                let fired = rig.bd.borrow().failed_ops.len();
                if fired == 0 {
                    return acc; // the call has fewer operations than k
                }
                acc.evaluations += 1;
                acc.nontrivial += 1;
                acc.count("large_fill_faults", 1);
                let after = rig.ops() - base - k - 1;
                let bad = if !matches!(out, Outcome::Err(_)) {
                    Some(("fill_solid(large)/wrong-error".to_string(), format!("outcome {out:?}")))
                } else if after != 0 {
                    Some(("fill_solid(large)/operations-after-failure".to_string(), format!("{after} further low-level operations after the failure")))
                } else {
                    None
                };
                if let Some((sig, m)) = bad {
                    acc.violation(Violation {
                        prop: ctx.prop.clone(),
                        sig,
                        msg: format!("{op:?} on {tr:?}, fault at operation index {k}: {m}"),
                        case: json!({"kind": "c12-op", "variant": ctx.variant, "cfg": cfg, "prefix": Vec::<Op>::new(), "op": op, "k": k, "mode": FaultMode::Unchanged, "k2": null}),
                    });
                }
                acc
            })
            .reduce(Acc::new, Acc::merge);
        acc = acc.merge(c);
    }
    acc.states = (init_cfgs.len() + jobs.len()) as u64;
    acc.n_outcomes = acc.counters.iter().filter(|(k, _)| k.starts_with("variant:")).count() as u64;
    acc.sample(json!({"cfg": init_cfgs[5], "operation": "Builder::init", "fault": {"at": 17, "mode": "Unchanged"}}));
    acc.sample(json!({"cfg": jobs[2].0, "prefix": jobs[2].1, "operation": jobs[2].2, "fault": {"at": 9, "mode": "Changed"}, "follow_up": ["clear", "set_pixel"]}));
    let bounds = json!({"init_sequences": init_cfgs.len(), "operation_jobs": jobs.len(), "faults_per_history": if quick { 1 } else { 2 },
        "transports": ["Spi(7)", "Par8", "Par16"]});
    let mut part = Part::new(ctx, acc, bounds, true, t0.elapsed().as_secs_f64());
    part.acc.n_outcomes = part.acc.counters.iter().filter(|(k, _)| k.starts_with("variant:")).count() as u64;
    for v in ["SpiError::Spi", "SpiError::Dc", "ParallelError::Bus", "ParallelError::Dc", "ParallelError::Wr"] {
        part.require(&format!("variant:{v}"), 1);
        part.require(&format!("variant:InitError::Interface({v})"), 1);
    }
    part.require("variant:InitError::ResetPin", 1);
    part.require("retries_after_failure", 100);
    part.require("init_retries", 100);
    part
}

pub fn replay(case: &serde_json::Value) -> i32 {
    let cfg: Cfg = serde_json::from_value(case["cfg"].clone()).unwrap();
    println!("{}", serde_json::to_string(case).unwrap());
    if case["kind"] == "c12-init" {
        let k = case["k"].as_u64().unwrap();
        let mode: FaultMode = serde_json::from_value(case["mode"].clone()).unwrap();
        let r = init_run(&cfg, &[Fault { at: k, mode }]);
        let b = r.bd.borrow();
        println!("init outcome {:?}; faults fired {:?}; low-level operations in total {}", r.out, b.failed_ops, b.ops);
        let n = b.evs.len();
        for e in &b.evs[n.saturating_sub(6)..] {
            println!("  {e:?}");
        }
        return 0;
    }
    let prefix: Vec<Op> = serde_json::from_value(case["prefix"].clone()).unwrap();
    let op: Op = serde_json::from_value(case["op"].clone()).unwrap();
    let mut rig = Rig::new(&cfg);
    for p in &prefix {
        let _ = rig.apply(p);
    }
    let base = rig.ops();
    if let Some(k) = case["k"].as_u64() {
        let mode: FaultMode = serde_json::from_value(case["mode"].clone()).unwrap();
        rig.set_faults(&[Fault { at: base + k, mode }]);
    }
    let out = rig.apply(&op);
    rig.set_faults(&[]);
    println!("outcome {out:?}; faults fired {:?}; operations since the call started {}", rig.bd.borrow().failed_ops, rig.ops() - base);
    let mut orient = cfg.orient;
    for p in &prefix {
        if let Op::SetOrientation(o) = p {
            orient = *o;
        }
    }
    let k2 = case["k2"].as_u64().map(|at| Fault { at, mode: FaultMode::Unchanged });
    match follow_up(&mut rig, orient, k2).fail {
        Some((s, m)) => {
            println!("REPLAY: {s} -- {m}");
            1
        }
        None => {
            println!("REPLAY: follow-up passes");
            0
        }
    }
}
