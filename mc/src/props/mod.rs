//! property checks
use crate::report::{Ctx, Part};

pub mod common;
pub mod c01;
pub mod c02;
pub mod c03;
pub mod c04;
pub mod c05;
pub mod c06;
pub mod c07;
pub mod c08;
pub mod c09;
pub mod c10;
pub mod c11;
pub mod c12;
pub mod c13;
pub mod c14;
pub mod c15;
pub mod c16;
pub mod c18;
pub mod c19;
pub mod c20;

pub struct Entry {
    pub id: &'static str,
    /// build variants this property must be run on (the orchestrating binary is "batch")
    pub variants: &'static [&'static str],
    pub level: &'static str,
    pub rule: &'static str,
    pub assumptions: &'static [&'static str],
    pub run: fn(&Ctx) -> Part,
}

pub fn lookup(id: &str) -> Option<&'static Entry> {
    ALL.iter().find(|e| e.id == id)
}

pub static ALL: &[Entry] = &[c01::ENTRY, c02::ENTRY, c03::ENTRY, c04::ENTRY, c05::ENTRY, c06::ENTRY, c07::ENTRY, c08::ENTRY, c09::ENTRY, c10::ENTRY, c11::ENTRY, c11::ENTRY17, c12::ENTRY, c13::ENTRY, c14::ENTRY, c15::ENTRY, c16::ENTRY, c18::ENTRY, c19::ENTRY, c20::ENTRY];

pub fn replay(ctx: &Ctx, path: &str) -> i32 {
    common::replay_file(ctx, path)
}

pub fn replay_special(_ctx: &Ctx, case: &serde_json::Value) -> i32 {
    match case["kind"].as_str() {
        Some("c05") => return c05::replay(case),
        Some("c06") | Some("c06x") | Some("c06d") => return c06::replay(case),
        Some("c07") => return c07::replay(case),
        Some("c09") => return c09::replay(case),
        Some("init") | Some("init-fault") => return c11::replay(case),
        Some("c08-fault") => return c08::replay_fault(case),
        Some("c02-fault") => return c02::replay_fault(case),
        Some("c13") => return c13::replay(case),
        Some("c14") => return c14::replay(case),
        Some("c14bus") => return c14::replay_bus(case),
        Some("c15") => return c15::replay(case),
        Some("c18") => return c18::replay(case),
        Some("c19") => return c19::replay(case),
        Some("c20") => return c20::replay(case),
        Some("c12-init") | Some("c12-op") => return c12::replay(case),
        _ => {}
    }
    eprintln!("no special replay for kind {}", case["kind"]);
    2
}
