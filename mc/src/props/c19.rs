//! C19 - the test image really diagnoses border, orientation and colour settings
use std::time::Instant;

use embedded_graphics_core::draw_target::DrawTarget;
use embedded_graphics_core::geometry::Size;
use embedded_graphics_core::pixelcolor::{Rgb565, Rgb666, Rgb888};
use embedded_graphics_core::{Drawable, Pixel};
use mipidsi::TestImage;
use rayon::prelude::*;
use serde_json::json;

use super::Entry;
use crate::ctl::UNWRITTEN;
use crate::dut::*;
use crate::report::*;
use crate::rig::*;

pub const ENTRY: Entry = Entry {
    id: "C19",
    variants: &["batch"],
    level: "model_checking",
    rule: "TestImage drawn (a) on a clipping framebuffer target that implements only draw_iter and records every pixel and every \
           out-of-bounds attempt: all sizes 0..=96 squared (thorough 0..=200) plus strips up to 65535, for Rgb565/Rgb666/Rgb888; (b) \
           through the real Display for windows 32x32..40x35 of a 40x35 framebuffer in all 8 orientations and for built-in 128x160 and \
           240x320 panels and for every built-in model x {3 orientations, 2 colour orders, 2 inversions, reset pin given before/after the options/absent}, also after clear + set_orientation, decoded by the reference controller, \
           transformed to what a viewer sees (red/blue exchanged when the controller's colour order bit differs from the configured one, complemented when the inversion differs) and compared with (a). (c) through the real Display for every small window (1..=40 x 1..=12 and 1..=12 x 13..=35): no panic, no error, no protocol violation. Oracle: never panics; for >= 32x32: every pixel \
           painted, outermost rows/columns pure white and the ring inside it not white, every interior row filtered to pure R/G/B \
           pixels reads R*G*B* with all three present in some row, and the picture differs from each of its rotated/mirrored versions \
           of equal dimensions. Non-trivial = sizes >= 32x32.",
    assumptions: &["a target that clips in draw_iter and uses the default fill_* implementations represents 'relies only on the target's clipping'"],
    run,
};

pub struct ClipFb<C> {
    /// top-left corner of the bounding box (not every draw target starts at the origin)
    pub ox: i32,
    pub oy: i32,
    pub w: u32,
    pub h: u32,
    pub px: Vec<u32>,
    pub oob: u64,
    _c: std::marker::PhantomData<C>,
}
impl<C: Col> ClipFb<C> {
    pub fn new(w: u32, h: u32) -> Self {
        ClipFb { ox: 0, oy: 0, w, h, px: vec![UNWRITTEN; (w as usize) * (h as usize)], oob: 0, _c: std::marker::PhantomData }
    }
}
impl<C: Col> embedded_graphics_core::geometry::Dimensions for ClipFb<C> {
    fn bounding_box(&self) -> embedded_graphics_core::primitives::Rectangle {
        embedded_graphics_core::primitives::Rectangle::new(embedded_graphics_core::geometry::Point::new(self.ox, self.oy), Size::new(self.w, self.h))
    }
}
impl<C: Col> DrawTarget for ClipFb<C> {
    type Color = C;
    type Error = core::convert::Infallible;
    fn draw_iter<I: IntoIterator<Item = Pixel<C>>>(&mut self, pixels: I) -> Result<(), Self::Error> {
        for Pixel(p, c) in pixels {
            let (x, y) = (p.x as i64 - self.ox as i64, p.y as i64 - self.oy as i64);
            if x >= 0 && y >= 0 && x < self.w as i64 && y < self.h as i64 {
                self.px[y as usize * self.w as usize + x as usize] = c.packed();
            } else {
                self.oob += 1;
            }
        }
        Ok(())
    }
}

#[derive(Clone, Copy)]
pub struct Pal {
    white: u32,
    red: u32,
    green: u32,
    blue: u32,
}
pub fn palette<C: Col>() -> Pal {
    Pal { white: C::WHITE.packed(), red: C::RED.packed(), green: C::GREEN.packed(), blue: C::BLUE.packed() }
}

/// the diagnostic clauses on a w x h picture (row-major packed colours)
pub fn diagnose(w: u32, h: u32, px: &[u32], pal: Pal) -> Option<(String, String)> {
    let at = |x: u32, y: u32| px[(y * w + x) as usize];
    let mk = |k: &str, m: String| Some((format!("test-image/{k}"), format!("{w}x{h}: {m}")));
    for y in 0..h {
        for x in 0..w {
            if at(x, y) == UNWRITTEN {
                return mk("unpainted", format!("pixel ({x},{y}) was never painted"));
            }
        }
    }
    for x in 0..w {
        if at(x, 0) != pal.white || at(x, h - 1) != pal.white {
            return mk("frame", format!("column {x}: the outermost rows are not pure white"));
        }
    }
    for y in 0..h {
        if at(0, y) != pal.white || at(w - 1, y) != pal.white {
            return mk("frame", format!("row {y}: the outermost columns are not pure white"));
        }
    }
    // one-pixel frame *exactly*: the ring just inside must not be white anywhere
    for x in 1..w - 1 {
        if at(x, 1) == pal.white || at(x, h - 2) == pal.white {
            return mk("frame-too-thick", format!("pixel ({x},1) or ({x},{}) inside the frame is white", h - 2));
        }
    }
    for y in 1..h - 1 {
        if at(1, y) == pal.white || at(w - 2, y) == pal.white {
            return mk("frame-too-thick", format!("pixel (1,{y}) or ({},{y}) inside the frame is white", w - 2));
        }
    }
    let mut all_three = false;
    for y in 1..h - 1 {
        let mut phase = 0; // 0 = red, 1 = green, 2 = blue
        let (mut r, mut g, mut b) = (false, false, false);
        for x in 1..w - 1 {
            let p = at(x, y);
            let k = if p == pal.red {
                0
            } else if p == pal.green {
                1
            } else if p == pal.blue {
                2
            } else {
                continue;
            };
            if k < phase {
                return mk("colour-order", format!("row {y}: a {} pixel right of a {} pixel", ["red", "green", "blue"][k], ["red", "green", "blue"][phase]));
            }
            phase = k;
            match k {
                0 => r = true,
                1 => g = true,
                _ => b = true,
            }
        }
        if r && g && b {
            all_three = true;
        }
    }
    if !all_three {
        return mk("colour-bars", "no interior row shows a red, a green and a blue region".into());
    }
    // differs from each rotated / mirrored version of equal dimensions
    let tf = |k: u8, x: u32, y: u32| -> (u32, u32) {
        // source pixel of transform k at destination (x,y); k: 1..=7
        match k {
            1 => (w - 1 - x, y),         // mirror left-right
            2 => (x, h - 1 - y),         // mirror top-bottom
            3 => (w - 1 - x, h - 1 - y), // rotate 180
            4 => (y, x),                 // transpose
            5 => (y, w - 1 - x),         // rotate 90
            6 => (h - 1 - y, x),         // rotate 270
            _ => (h - 1 - y, w - 1 - x), // anti-transpose
        }
    };
    let kmax = if w == h { 7 } else { 3 };
    for k in 1..=kmax {
        let mut same = true;
        'o: for y in 0..h {
            for x in 0..w {
                let (sx, sy) = tf(k, x, y);
                if at(x, y) != at(sx, sy) {
                    same = false;
                    break 'o;
                }
            }
        }
        if same {
            return mk("symmetric", format!("the picture equals its transform #{k} (1 h-mirror, 2 v-mirror, 3 rot180, 4..7 diagonal/quarter turns)"));
        }
    }
    None
}

fn draw_on_target<C: Col>(w: u32, h: u32) -> Result<ClipFb<C>, String> {
    draw_on_target_at::<C>(0, 0, w, h)
}
fn draw_on_target_at<C: Col>(ox: i32, oy: i32, w: u32, h: u32) -> Result<ClipFb<C>, String> {
    let r = std::panic::catch_unwind(move || {
        let mut fb = ClipFb::<C>::new(w, h);
        fb.ox = ox;
        fb.oy = oy;
        TestImage::<C>::new().draw(&mut fb).unwrap();
        fb
    });
    r.map_err(|_| "panicked".to_string())
}

fn check_target<C: Col>(ctx: &Ctx, acc: &mut Acc, w: u32, h: u32, cname: &str) {
    acc.evaluations += 1;
    match draw_on_target::<C>(w, h) {
        Err(m) => acc.violation(Violation { prop: ctx.prop.clone(), sig: "test-image/panic".into(), msg: format!("{w}x{h} {cname}: {m}"), case: json!({"kind": "c19", "variant": ctx.variant, "w": w, "h": h, "colour": cname}) }),
        Ok(fb) => {
            let mut hsh = crate::util::Fnv::new();
            hsh.u32(w);
            hsh.u32(h);
            hsh.u64(fb.oob);
            acc.outcome(hsh.finish());
            // the same target moved away from the origin must show the same picture
            if (w + h) % 7 == 0 || (w == 32 && h == 32) || (w == 40 && h == 33) {
                for (ox, oy) in [(5i32, 9i32), (-40, 3), (1000, -2000)] {
                    match draw_on_target_at::<C>(ox, oy, w, h) {
                        Ok(f2) if f2.px == fb.px => acc.count("moved_targets", 1),
                        Ok(_) => acc.violation(Violation { prop: ctx.prop.clone(), sig: "test-image/depends-on-origin".into(), msg: format!("{w}x{h} {cname}: a target whose bounding box starts at ({ox},{oy}) shows a different picture"), case: json!({"kind": "c19", "variant": ctx.variant, "w": w, "h": h, "colour": cname, "origin": [ox, oy]}) }),
                        Err(m) => acc.violation(Violation { prop: ctx.prop.clone(), sig: "test-image/panic".into(), msg: format!("{w}x{h} at ({ox},{oy}) {cname}: {m}"), case: json!({"kind": "c19", "variant": ctx.variant, "w": w, "h": h, "colour": cname, "origin": [ox, oy]}) }),
                    }
                }
            }
            if w >= 32 && h >= 32 {
                acc.nontrivial += 1;
                if let Some((sig, msg)) = diagnose(w, h, &fb.px, palette::<C>()) {
                    acc.violation(Violation { prop: ctx.prop.clone(), sig, msg: format!("{cname}: {msg}"), case: json!({"kind": "c19", "variant": ctx.variant, "w": w, "h": h, "colour": cname}) });
                }
            } else {
                acc.count("small_targets_no_panic", 1);
            }
        }
    }
}

fn check_display(ctx: &Ctx, acc: &mut Acc, cfg: &Cfg) {
    check_display_after(ctx, acc, cfg, &[]);
    // state carried from earlier calls: clear, change the orientation, then draw the image
    for o2 in [(cfg.orient + 2) % 8, cfg.orient ^ 4, (cfg.orient + 1) % 8] {
        check_display_after(ctx, acc, cfg, &[Op::Clear { c: 0x0841 }, Op::SetOrientation(o2)]);
    }
}

fn check_display_after(ctx: &Ctx, acc: &mut Acc, cfg: &Cfg, prefix: &[Op]) {
    acc.evaluations += 1;
    acc.nontrivial += 1;
    let mut rig = Rig::new(cfg);
    let mut hist: Vec<Op> = prefix.to_vec();
    hist.push(Op::TestImage);
    let mk = |k: &str, m: String| Violation { prop: ctx.prop.clone(), sig: format!("test-image/display/{k}"), msg: m, case: json!({"variant": ctx.variant, "cfg": cfg, "faults": [], "history": hist, "checks": "all"}) };
    if !rig.init.is_ok() {
        acc.violation(mk("init", format!("{:?}", rig.init)));
        return;
    }
    let mut orient = cfg.orient;
    for p in prefix {
        let o = rig.apply(p);
        if !o.is_ok() {
            acc.violation(mk("prefix", format!("{p:?}: {o:?}")));
            return;
        }
        if let Op::SetOrientation(o2) = p {
            orient = *o2;
        }
    }
    let out = rig.apply(&Op::TestImage);
    if !out.is_ok() {
        acc.violation(mk("outcome", format!("{out:?}")));
        return;
    }
    if !rig.ctl.viols.is_empty() {
        acc.violation(mk("protocol", format!("{:?}", rig.ctl.viols[0])));
        return;
    }
    let geo = crate::spec::Geo { orient, ..cfg.geo() };
    let (lw, lh) = geo.lsize();
    if lw < 32 || lh < 32 {
        return;
    }
    let mut px = Vec::with_capacity((lw * lh) as usize);
    for y in 0..lh {
        for x in 0..lw {
            let (cx, cy) = geo.cell(x, y);
            px.push(rig.ctl.mem.get(cx, cy));
        }
    }
    // what a viewer sees: a panel whose colour order / inversion setting disagrees with the configured one shows red
    // and blue exchanged / complementary colours
    let swap = (rig.ctl.madctl & 0x08 != 0) != cfg.bgr;
    let inv = rig.ctl.inverted != cfg.invert;
    if swap || inv {
        let (mr, mg) = if cfg.c666() { (63u32, 63u32) } else { (31, 63) };
        for p in px.iter_mut() {
            if *p == UNWRITTEN {
                continue;
            }
            let (mut r, mut g, mut b) = (*p >> 16 & 0xFF, *p >> 8 & 0xFF, *p & 0xFF);
            if swap {
                std::mem::swap(&mut r, &mut b);
            }
            if inv {
                r = mr - r;
                g = mg - g;
                b = mr - b;
            }
            *p = r << 16 | g << 8 | b;
        }
    }
    let (pal, reference) = if cfg.c666() {
        (palette::<Rgb666>(), draw_on_target::<Rgb666>(lw, lh).map(|f| f.px))
    } else {
        (palette::<Rgb565>(), draw_on_target::<Rgb565>(lw, lh).map(|f| f.px))
    };
    if let Some((sig, msg)) = diagnose(lw, lh, &px, pal) {
        acc.violation(Violation { prop: ctx.prop.clone(), sig: format!("{sig}/display"), msg, case: json!({"variant": ctx.variant, "cfg": cfg, "faults": [], "history": hist, "checks": "all"}) });
        return;
    }
    if reference.as_ref().map(|r| *r != px).unwrap_or(true) {
        acc.violation(mk("differs-from-clipping-target", "the picture on the panel differs from the picture on a plain clipping target".into()));
    }
    acc.count("display_configurations", 1);
}

fn run(ctx: &Ctx) -> Part {
    let t0 = Instant::now();
    let quick = ctx.quick();
    let max = if quick { 96 } else { 200 };
    let mut sizes: Vec<(u32, u32)> = (0..=max).flat_map(|w| (0..=max).map(move |h| (w, h))).collect();
    for w in [32u32, 33, 65535] {
        for h in [32u32, 65535] {
            if (w as u64) * (h as u64) <= 1 << 22 {
                sizes.push((w, h));
            }
        }
    }
    sizes.extend_from_slice(&[(65535, 1), (1, 65535), (65535, 0), (0, 65535), (200, 100), (320, 240), (240, 320)]);
    let a = sizes
        .par_iter()
        .fold(Acc::new, |mut acc, &(w, h)| {
            check_target::<Rgb565>(ctx, &mut acc, w, h, "Rgb565");
            check_target::<Rgb666>(ctx, &mut acc, w, h, "Rgb666");
            check_target::<Rgb888>(ctx, &mut acc, w, h, "Rgb888");
            acc
        })
        .reduce(Acc::new, Acc::merge);
    // through the real Display
    let mut cfgs = Vec::new();
    for win in [(32u16, 32u16, 0u16, 0u16), (40, 35, 0, 0), (33, 32, 7, 3), (32, 35, 8, 0), (39, 33, 1, 2)] {
        for o in 0..8u8 {
            cfgs.push(Cfg::tiny(40, 35, false, Transport::RecSerial, win, o));
        }
    }
    cfgs.push(Cfg::tiny(40, 35, true, Transport::RecSerial, (36, 33, 2, 1), 5));
    cfgs.push(Cfg::tiny(40, 35, false, Transport::Par8, (34, 32, 3, 3), 3));
    cfgs.push(Cfg::tiny(40, 35, true, Transport::Par8, (33, 34, 4, 1), 6));
    cfgs.push(Cfg::tiny(40, 35, true, Transport::Spi { len: 8 }, (40, 32, 0, 2), 1));
    cfgs.push(Cfg::tiny(40, 35, false, Transport::Par16, (32, 32, 5, 2), 7));
    cfgs.push(Cfg::tiny(40, 35, false, Transport::Spi { len: 9 }, (40, 35, 0, 0), 6));
    for (m, win) in [(0u8, None), (2, None), (12, Some((135u16, 240u16, 52u16, 40u16))), (11, Some((128, 128, 2, 1)))] {
        for o in [0u8, 1, 6] {
            cfgs.push(Cfg { model: ModelId::Builtin(m), tr: Transport::RecSerial, win, orient: o, bgr: false, invert: false, refresh: 0, rst: false, flags: 0 });
        }
    }
    // every built-in model with non-default colour order / inversion / orientation, options given before or after the
    // reset pin in the builder chain: the picture as a viewer sees it (colour order and inversion of the controller
    // against the configured ones) still passes the diagnosis
    for (i, info) in BUILTINS.iter().enumerate() {
        let tr = if info.supports[0] { Transport::RecSerial } else { Transport::RecPar8 };
        for o in [0u8, 3, 6] {
            for bgr in [false, true] {
                for invert in [false, true] {
                    for (rst, flags) in [(false, 0u8), (true, F_OPTS_FIRST), (true, 0)] {
                        cfgs.push(Cfg { model: ModelId::Builtin(i as u8), tr, win: Some((33, 32, 1, 2)), orient: o, bgr, invert, refresh: 0, rst, flags });
                    }
                }
            }
        }
    }
    let b = cfgs
        .par_iter()
        .fold(Acc::new, |mut acc, cfg| {
            check_display(ctx, &mut acc, cfg);
            acc
        })
        .reduce(Acc::new, Acc::merge);
    // small real displays (every window 1..=40 x 1..=12 and 1..=12 x 13..=35 of the 40x35 external model, two
    // orientations): TestImage relies only on the target's clipping - on the real Display that is Display's own
    // fill_contiguous / fill_solid / draw_iter clipping - and must not panic, fail or violate the protocol
    let mut small: Vec<Cfg> = Vec::new();
    for w in 1..=40u16 {
        for h in 1..=35u16 {
            if h <= 12 || w <= 12 {
                small.push(Cfg::tiny(40, 35, false, Transport::RecSerial, (w, h, (40 - w) / 2, (35 - h) / 3), if (w + h) % 2 == 0 { 0 } else { 5 }));
            }
        }
    }
    let c = small
        .par_iter()
        .fold(Acc::new, |mut acc, cfg| {
            acc.evaluations += 1;
            let mut rig = Rig::new(cfg);
            let out = rig.apply(&Op::TestImage);
            acc.count("small_displays_no_panic", 1);
            if !out.is_ok() || !rig.ctl.viols.is_empty() {
                acc.violation(Violation {
                    prop: ctx.prop.clone(),
                    sig: if matches!(out, Outcome::Panic(_)) { "test-image/display/panic".into() } else { "test-image/display/small".into() },
                    msg: format!("TestImage on a real display with window {:?}, orientation {}: outcome {out:?}, protocol {:?}", cfg.win, cfg.orient, rig.ctl.viols.first()),
                    case: json!({"variant": ctx.variant, "cfg": cfg, "faults": [], "history": [Op::TestImage], "checks": "all"}),
                });
            }
            acc
        })
        .reduce(Acc::new, Acc::merge);
    let mut acc = a.merge(b).merge(c);
    acc.states = (sizes.len() * 3 + cfgs.len()) as u64;
    acc.transitions = acc.evaluations;
    acc.traces = acc.evaluations;
    acc.sample(json!({"target": "clipping framebuffer 32x32 Rgb565"}));
    acc.sample(json!({"cfg": cfgs[11], "history": ["TestImage"]}));
    let bounds = json!({"target_sizes": format!("0..={max} squared + strips"), "colour_types": ["Rgb565", "Rgb666", "Rgb888"], "display_configurations": cfgs.len()});
    let mut part = Part::new(ctx, acc, bounds, true, t0.elapsed().as_secs_f64());
    part.require("display_configurations", 1);
    part.require("small_targets_no_panic", 1);
    part.require("small_displays_no_panic", 100);
    part
}

pub fn replay(case: &serde_json::Value) -> i32 {
    let (w, h) = (case["w"].as_u64().unwrap() as u32, case["h"].as_u64().unwrap() as u32);
    let f = match case["colour"].as_str() {
        Some("Rgb666") => draw_on_target::<Rgb666>(w, h).map(|f| (f.px, palette::<Rgb666>())),
        Some("Rgb888") => draw_on_target::<Rgb888>(w, h).map(|f| (f.px, palette::<Rgb888>())),
        _ => draw_on_target::<Rgb565>(w, h).map(|f| (f.px, palette::<Rgb565>())),
    };
    match f {
        Err(m) => {
            println!("REPLAY: test-image/panic -- {m}");
            1
        }
        Ok((px, pal)) => {
            if w <= 64 && h <= 64 {
                for y in 0..h {
                    let row: String = (0..w)
                        .map(|x| {
                            let p = px[(y * w + x) as usize];
                            if p == pal.white { 'W' } else if p == pal.red { 'R' } else if p == pal.green { 'G' } else if p == pal.blue { 'B' } else if p == UNWRITTEN { '?' } else { '.' }
                        })
                        .collect();
                    println!("  {row}");
                }
            }
            match if w >= 32 && h >= 32 { diagnose(w, h, &px, pal) } else { None } {
                Some((s, m)) => {
                    println!("REPLAY: {s} -- {m}");
                    1
                }
                None => {
                    println!("REPLAY: passes");
                    0
                }
            }
        }
    }
}
