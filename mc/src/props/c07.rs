//! C07 - parallel transport: values latched at each write strobe are the words sent
use std::time::Instant;

use mipidsi::interface::OutputBus;
use serde_json::json;

use super::Entry;
use crate::dut::*;
use crate::e1::{self, Sys};
use crate::env::*;
use crate::report::*;
use crate::rig::{guarded, Outcome};
use crate::tr::*;

pub const ENTRY: Entry = Entry {
    id: "C07",
    variants: &["batch", "wrap"],
    level: "model_checking",
    rule: "explicit-state closure (stateright BFS) over the real buses and the real ParallelInterface, every transition replayed on \
           fresh objects. (a) Generic8BitBus: roots = all 256 initial pin patterns; actions = set_value(v) for all 256 values x {no \
           fault, data pin i fails with level unchanged, data pin i fails although the level changed}; key = (cached last value via \
           hook, 8 pin levels); invariant on every Ok transition: pin levels == v. (b) Generic16BitBus: same with a value alphabet of \
           single bits, their complements and byte patterns and all 33 fault choices. (c) ParallelInterface on 8- and 16-bit buses: \
           roots = WR/DC/data initial levels; actions = send_command / send_pixels / send_repeated_pixel over words {00,FF,2C,A5} \
           with equal consecutive words, N in 1..3, counts 0..4, optionally one failing data pin; invariant: words sampled at WR \
           rising edges (with DC) == the expected sequence (a prefix of it if the call reported an error). (e) every history of 3 calls (and of 4 calls of the form ok, any, any, ok at bus level) over reduced alphabets \
           WITHOUT state merging (bus level with faults, interface level fault-free), as a guard against hidden state outside the key. (d) repeat counts whose \
           strobe count exceeds 2^32: the call must still be strobing when a 4096-operation budget runs out (quick), or produce \
           exactly count*N rising edges (thorough). Non-trivial = transitions on which an injected fault was consumed, or that \
           changed the cached value.",
    assumptions: &["a failed pin operation is not seen by the device before the next write strobe", "WR and DC failures belong to C12"],
    run,
};

// ------------------------------------------------------------------------------------------------
// (a)/(b) bus level

#[derive(Clone)]
struct BusSys {
    wide: bool,
    values: Vec<u16>,
    roots: Vec<u16>,
    /// deviation bound: at most this many injected faults per history (u32::MAX = unbounded)
    max_faults: u32,
    /// pins that may fail
    fault_pins: Vec<u8>,
}
impl BusSys {
    fn nbits(&self) -> u32 {
        if self.wide { 16 } else { 8 }
    }
    fn levels(&self, pat: u16) -> [bool; NPINS] {
        let mut l = Board::default_levels();
        for i in 0..16 {
            l[i] = pat & (1 << i) != 0;
        }
        l
    }
    fn decode(&self, a: u32) -> (u16, Option<(u8, FaultMode)>) {
        let v = self.values[(a & 0xFFFF) as usize];
        let f = a >> 16;
        let np = self.fault_pins.len() as u32;
        let fault = if f == 0 {
            None
        } else if f <= np {
            Some((self.fault_pins[(f - 1) as usize], FaultMode::Unchanged))
        } else {
            Some((self.fault_pins[(f - 1 - np) as usize], FaultMode::Changed))
        };
        (v, fault)
    }
}
fn pat_of(levels: &[bool; NPINS], nbits: u32) -> u16 {
    let mut w = 0u16;
    for i in 0..nbits as usize {
        if levels[i] {
            w |= 1 << i;
        }
    }
    w
}
thread_local! {
    pub static C07_STATS: std::cell::Cell<(u64, u64)> = const { std::cell::Cell::new((0, 0)) };
}
static LAST_NONE_AFTER_FAULT: std::sync::atomic::AtomicU64 = std::sync::atomic::AtomicU64::new(0);

impl Sys for BusSys {
    fn roots(&self) -> usize {
        self.roots.len()
    }
    fn enabled(&self, _root: usize, hist: &[u32]) -> bool {
        hist.iter().filter(|a| **a >> 16 != 0).count() as u32 <= self.max_faults
    }
    fn actions(&self, _r: usize) -> Vec<u32> {
        let nf = 1 + 2 * self.fault_pins.len() as u32;
        let mut v = Vec::with_capacity(self.values.len() * nf as usize);
        for f in 0..nf {
            for i in 0..self.values.len() as u32 {
                v.push(i | f << 16);
            }
        }
        v
    }
    fn max_depth(&self) -> usize {
        8
    }
    fn root_in_key(&self) -> bool {
        false
    }
    fn exec(&self, root: usize, hist: &[u32]) -> (Vec<u64>, Option<String>) {
        let bd = Board::new(self.levels(self.roots[root]));
        let nb = self.nbits();
        let mut bad = None;
        let key;
        macro_rules! drive {
            ($bus:expr, $conv:expr) => {{
                let mut bus = $bus;
                for (i, &a) in hist.iter().enumerate() {
                    let (v, fault) = self.decode(a);
                    if let Some(f) = fault {
                        bd.borrow_mut().pin_faults = vec![f];
                    }
                    let failed0 = bd.borrow().failed_ops.len();
                    let r = guarded(|| bus.set_value($conv(v)).map_err(|e: PinFault| ErrClass::ParBus { pin: e.pin, op: e.op }));
                    let consumed = bd.borrow().failed_ops.len() > failed0;
                    bd.borrow_mut().pin_faults.clear();
                    let last_step = i + 1 == hist.len();
                    let got = pat_of(&bd.borrow().levels, nb);
                    match r {
                        Outcome::Ok => {
                            if consumed {
                                bad = Some(format!("set_value/error-swallowed|set_value({v:#x}) returned Ok although a pin operation failed"));
                            } else if got != v {
                                bad = Some(format!("set_value/pins-differ|set_value({v:#x}) returned Ok but the data pins show {got:#x}"));
                            }
                        }
                        Outcome::Err(_) => {
                            if !consumed {
                                bad = Some(format!("set_value/spurious-error|set_value({v:#x}) failed without an injected fault"));
                            } else if last_step {
                                e1::flag();
                                if bus.verif_last().is_none() {
                                    LAST_NONE_AFTER_FAULT.fetch_add(1, std::sync::atomic::Ordering::Relaxed);
                                }
                            }
                        }
                        Outcome::Panic(m) => bad = Some(format!("set_value/panic|{m}")),
                        Outcome::NonTermination(m) => bad = Some(format!("set_value/non-termination|{m}")),
                    }
                    if bad.is_some() {
                        break;
                    }
                }
                let last = bus.verif_last();
                let used = if self.max_faults == u32::MAX { 0 } else { hist.iter().filter(|a| **a >> 16 != 0).count() as u64 };
                vec![last.map(|x| x as u64 + 1).unwrap_or(0), pat_of(&bd.borrow().levels, nb) as u64, used]
            }};
        }
        if self.wide {
            key = drive!(mk_bus16(&bd), |v: u16| v);
        } else {
            key = drive!(mk_bus8(&bd), |v: u16| v as u8);
        }
        (key, bad)
    }
}

// ------------------------------------------------------------------------------------------------
// (c) interface level

#[derive(Clone)]
struct IfaceSys {
    wide: bool,
    calls: Vec<TCall>,
    /// (data pattern, dc, wr)
    roots: Vec<(u16, bool, bool)>,
    fault_pins: Vec<u8>,
    max_faults: u32,
}
pub fn iface_calls(wide: bool) -> Vec<TCall> {
    let ws: &[u16] = if wide { &[0x0000, 0xFFFF, 0x002C, 0xA5A5, 0x00A5] } else { &[0x00, 0xFF, 0x2C, 0xA5] };
    let bs: [u8; 4] = [0x00, 0xFF, 0x2C, 0xA5];
    let mut v = Vec::new();
    // commands: instruction x args (equal consecutive words included)
    for &c in &bs {
        v.push(TCall::Cmd { op: c, args: vec![] });
        v.push(TCall::Cmd { op: c, args: vec![c] });
        v.push(TCall::Cmd { op: c, args: vec![c, c, c] });
        v.push(TCall::Cmd { op: c, args: vec![0xA5, 0x2C] });
        v.push(TCall::Cmd { op: c, args: vec![0x00, 0x00, 0xFF] });
    }
    // pixel streams
    for n in 1..=3u8 {
        v.push(TCall::Pixels { n, words: vec![] });
        for &w in ws {
            v.push(TCall::Pixels { n, words: vec![w; n as usize] });
            v.push(TCall::Pixels { n, words: vec![w; 3 * n as usize] });
        }
        let mixed: Vec<u16> = (0..2 * n as usize).map(|i| ws[i % ws.len()]).collect();
        v.push(TCall::Pixels { n, words: mixed });
    }
    // repeats
    for n in 1..=3usize {
        for count in 0..=4u32 {
            for &w in ws.iter().take(3) {
                v.push(TCall::Repeat { pixel: vec![w; n], count });
            }
            if n >= 2 {
                // every position of the odd word out: [b,a..], [a,b,a], [a,..,b]
                for k in 0..n {
                    let mut p = vec![ws[1]; n];
                    p[k] = ws[2];
                    v.push(TCall::Repeat { pixel: p, count });
                }
            }
        }
    }
    v
}
impl IfaceSys {
    fn decode(&self, a: u32) -> (&TCall, Option<(u8, FaultMode)>) {
        let c = &self.calls[(a & 0xFFFF) as usize];
        let f = a >> 16;
        let np = self.fault_pins.len() as u32;
        let fault = if f == 0 {
            None
        } else if f <= np {
            Some((self.fault_pins[(f - 1) as usize], FaultMode::Unchanged))
        } else {
            Some((self.fault_pins[(f - 1 - np) as usize], FaultMode::Changed))
        };
        (c, fault)
    }
    fn levels(&self, r: (u16, bool, bool)) -> [bool; NPINS] {
        let mut l = Board::default_levels();
        for i in 0..16 {
            l[i] = r.0 & (1 << i) != 0;
        }
        l[PIN_DC as usize] = r.1;
        l[PIN_WR as usize] = r.2;
        l
    }
}
impl Sys for IfaceSys {
    fn roots(&self) -> usize {
        self.roots.len()
    }
    fn enabled(&self, _root: usize, hist: &[u32]) -> bool {
        // after a call that may have failed, the data/command line is undefined until the next
        // command (every Display-level call starts with one): only commands are enabled then
        if hist.len() >= 2 && hist[hist.len() - 2] >> 16 != 0 {
            let (c, _) = self.decode(hist[hist.len() - 1]);
            if !matches!(c, TCall::Cmd { .. }) {
                return false;
            }
        }
        hist.iter().filter(|a| **a >> 16 != 0).count() as u32 <= self.max_faults
    }
    fn actions(&self, _r: usize) -> Vec<u32> {
        let nf = 1 + 2 * self.fault_pins.len() as u32;
        let mut v = Vec::new();
        for f in 0..nf {
            for i in 0..self.calls.len() as u32 {
                v.push(i | f << 16);
            }
        }
        v
    }
    fn max_depth(&self) -> usize {
        5
    }
    fn root_in_key(&self) -> bool {
        false
    }
    fn exec(&self, root: usize, hist: &[u32]) -> (Vec<u64>, Option<String>) {
        let lv = self.levels(self.roots[root]);
        let mut t = if self.wide { TRig::par16(lv) } else { TRig::par8(lv) };
        let mut bad = None;
        // pixel calls are only defined after a memory-write-start command: fixed preamble
        let pre = TCall::Cmd { op: 0x2C, args: vec![] };
        let o = t.call(&pre);
        if !o.is_ok() || t.latched() != pre.expected() {
            return (vec![9], Some("send_command/preamble|the RAMWR preamble was not latched correctly".into()));
        }
        for &a in hist {
            let (c, fault) = self.decode(a);
            if let Some(f) = fault {
                t.bd.borrow_mut().pin_faults = vec![f];
            }
            let failed0 = t.bd.borrow().failed_ops.len();
            let out = t.call(c);
            let consumed = t.bd.borrow().failed_ops.len() > failed0;
            t.bd.borrow_mut().pin_faults.clear();
            let got = t.latched();
            let exp = c.expected();
            let name = match c {
                TCall::Cmd { .. } => "send_command",
                TCall::Pixels { .. } | TCall::PixelsUnfused { .. } | TCall::PixelsLoose { .. } => "send_pixels",
                TCall::Repeat { .. } => "send_repeated_pixel",
            };
            match out {
                Outcome::Ok => {
                    if consumed {
                        bad = Some(format!("{name}/error-swallowed|{c:?} returned Ok although a pin operation failed"));
                    } else if got != exp {
                        bad = Some(format!("{name}/latched-words-differ|{c:?}: latched (dc,word) {got:x?}, expected {exp:x?}"));
                    }
                }
                Outcome::Err(_) => {
                    if !consumed {
                        bad = Some(format!("{name}/spurious-error|{c:?} failed without an injected fault"));
                    } else if got.len() > exp.len() || got[..] != exp[..got.len()] {
                        bad = Some(format!("{name}/latched-not-a-prefix|{c:?} failed, but the device latched {got:x?}, not a prefix of {exp:x?}"));
                    } else {
                        e1::flag();
                    }
                }
                Outcome::Panic(m) => bad = Some(format!("{name}/panic|{c:?}: {m}")),
                Outcome::NonTermination(m) => bad = Some(format!("{name}/non-termination|{c:?}: {m}")),
            }
            if bad.is_some() {
                break;
            }
        }
        let nb = if self.wide { 16 } else { 8 };
        let b = t.bd.borrow();
        let key = vec![
            t.bus_last().unwrap().map(|x| x as u64 + 1).unwrap_or(0),
            pat_of(&b.levels, nb) as u64,
            b.levels[PIN_DC as usize] as u64,
            b.levels[PIN_WR as usize] as u64,
            hist.iter().filter(|a| **a >> 16 != 0).count() as u64,
        ];
        (key, bad)
    }
}

// ------------------------------------------------------------------------------------------------
// (d) extreme repeat counts

/// returns Some((sig, msg)) on violation
pub fn extreme_count(n: usize, count: u32, full: bool) -> (Option<(String, String)>, u64) {
    let lv = Board::default_levels();
    let mut t = TRig::par8(lv);
    {
        let mut b = t.bd.borrow_mut();
        b.count_only = true;
        b.budget = if full { u64::MAX } else { 4096 };
    }
    let c = TCall::Repeat { pixel: vec![0x00; n], count };
    let want = count as u64 * n as u64;
    let out = t.call(&c);
    let edges = t.bd.borrow().wr_rising;
    let r = match out {
        Outcome::NonTermination(_) if !full => None, // still strobing when the budget ran out: as required
        Outcome::Ok => {
            if edges == want {
                None
            } else {
                Some((
                    "send_repeated_pixel/strobe-count".to_string(),
                    format!("send_repeated_pixel([0;{n}], {count}) produced {edges} write strobes, expected {want}"),
                ))
            }
        }
        Outcome::Panic(m) => Some(("send_repeated_pixel/panic".to_string(), format!("send_repeated_pixel([0;{n}], {count}): {m}"))),
        o => Some(("send_repeated_pixel/outcome".to_string(), format!("send_repeated_pixel([0;{n}], {count}): {o:?}"))),
    };
    (r, edges)
}

fn value_alphabet16(quick: bool) -> Vec<u16> {
    let mut v: Vec<u16> = vec![0x0000, 0xFFFF, 0x00FF, 0xFF00, 0x5555, 0xAAAA];
    let bits: Vec<u32> = if quick { vec![0, 7, 8, 15] } else { (0..16).collect() };
    for b in &bits {
        v.push(1 << b);
    }
    if quick {
        v.push(!1u16);
        v.push(!(1u16 << 15));
    } else {
        for b in &bits {
            v.push(!(1u16 << b));
        }
    }
    v.sort_unstable();
    v.dedup();
    v
}

fn closure_leg<S: Sys + Clone>(ctx: &Ctx, acc: &mut Acc, name: &str, sys: S, describe: &dyn Fn(usize, &[u32]) -> serde_json::Value) {
    if let Ok(l) = std::env::var("MC_C07_LEG") {
        if l != name {
            return;
        }
    }
    let t = Instant::now();
    let r = closure_leg_inner(ctx, acc, name, sys, describe);
    if std::env::var_os("MC_VERBOSE").is_some() {
        eprintln!("leg {name}: {:.2}s", t.elapsed().as_secs_f64());
    }
    r
}
fn closure_leg_inner<S: Sys + Clone>(ctx: &Ctx, acc: &mut Acc, name: &str, sys: S, describe: &dyn Fn(usize, &[u32]) -> serde_json::Value) {
    match e1::close_checked(sys, 16) {
        Err(e) => {
            eprintln!("MACHINERY: {name}: {e}");
            std::process::exit(2);
        }
        Ok(c) => {
            acc.states += c.unique_states;
            acc.transitions += c.transitions;
            acc.nontrivial += c.flagged;
            acc.count("transitions_with_consumed_fault", c.flagged);
            acc.evaluations += c.transitions;
            acc.traces += c.transitions;
            acc.count(&format!("{name}:unique_states"), c.unique_states);
            acc.count(&format!("{name}:transitions"), c.transitions);
            acc.count(&format!("{name}:max_depth"), c.max_depth);
            if let Some((root, hist, msg)) = c.counterexample {
                let (sig, text) = msg.split_once('|').unwrap_or(("c07", &msg));
                acc.violation(Violation {
                    prop: ctx.prop.clone(),
                    sig: format!("{name}/{sig}"),
                    msg: format!("{text} [shortest counterexample: {} call(s)]", hist.len()),
                    case: json!({"kind": "c07", "variant": ctx.variant, "leg": name, "detail": describe(root, &hist)}),
                });
            }
        }
    }
}

fn run(ctx: &Ctx) -> Part {
    let t0 = Instant::now();
    let quick = ctx.quick();
    let mut acc = Acc::new();

    // (a) 8-bit bus: complete
    let s8 = BusSys { wide: false, values: (0..256).collect(), roots: (0..256).collect(), max_faults: u32::MAX, fault_pins: (0..8).collect() };
    let s8c = s8.clone();
    closure_leg(ctx, &mut acc, "bus8", s8, &move |root, hist| {
        json!({"initial_levels": s8c.roots[root], "calls": hist.iter().map(|a| { let (v, f) = s8c.decode(*a); json!({"set_value": v, "fault": f.map(|x| format!("{:?}", x))}) }).collect::<Vec<_>>()})
    });
    // (b) 16-bit bus
    let vals = value_alphabet16(quick);
    // deviation-bounded: at most 1 injected fault per history on any of the 16 pins (quick);
    // thorough adds a second leg with at most 2 faults on the byte-boundary pins
    let s16 = BusSys { wide: true, values: vals.clone(), roots: vals.clone(), max_faults: 1, fault_pins: (0..16).collect() };
    let s16c = s16.clone();
    closure_leg(ctx, &mut acc, "bus16", s16, &move |root, hist| {
        json!({"initial_levels": s16c.roots[root], "calls": hist.iter().map(|a| { let (v, f) = s16c.decode(*a); json!({"set_value": v, "fault": f.map(|x| format!("{:?}", x))}) }).collect::<Vec<_>>()})
    });
    if !quick {
        let v6: Vec<u16> = vec![0x0000, 0xFFFF, 0x00FF, 0xFF00, 0x5555, 0x8001];
        let s16b = BusSys { wide: true, values: v6.clone(), roots: v6, max_faults: 2, fault_pins: vec![0, 1, 7, 8, 14, 15] };
        let s16bc = s16b.clone();
        closure_leg(ctx, &mut acc, "bus16-2faults", s16b, &move |root, hist| {
            json!({"initial_levels": s16bc.roots[root], "calls": hist.iter().map(|a| { let (v, f) = s16bc.decode(*a); json!({"set_value": v, "fault": f.map(|x| format!("{:?}", x))}) }).collect::<Vec<_>>()})
        });
    }
    // (c) interface level
    for wide in [false, true] {
        let mut roots = Vec::new();
        for pat in [0x0000u16, 0xFFFF, 0x00A5] {
            for dc in [false, true] {
                for wr in [false, true] {
                    roots.push((if wide { pat } else { pat & 0xFF }, dc, wr));
                }
            }
        }
        let fault_pins: Vec<u8> = if wide { vec![0, 9, 15] } else if quick { vec![0, 5] } else { vec![0, 3, 5, 7] };
        let sys = IfaceSys { wide, calls: iface_calls(wide), roots, fault_pins, max_faults: if quick { 1 } else { 2 } };
        let sc = sys.clone();
        acc.count(if wide { "iface16:calls" } else { "iface8:calls" }, sys.calls.len() as u64);
        closure_leg(ctx, &mut acc, if wide { "iface16" } else { "iface8" }, sys, &move |root, hist| {
            json!({"initial (data,dc,wr)": sc.roots[root], "calls": hist.iter().map(|a| { let (c, f) = sc.decode(*a); json!({"call": c, "fault": f.map(|x| format!("{:?}", x))}) }).collect::<Vec<_>>()})
        });
    }
    acc.count("states_with_cache_cleared_after_fault", LAST_NONE_AFTER_FAULT.load(std::sync::atomic::Ordering::Relaxed));

    // (e) all histories of length 3 WITHOUT state merging (the closures above identify states by the
    // hooked cache + pin levels; a driver with additional hidden state - a retry mask, a second cache -
    // could hide behind that identification, so short histories are also enumerated exhaustively)
    {
        use rayon::prelude::*;
        // bus level
        for wide in [false, true] {
            let values: Vec<u16> = if wide { vec![0x0000, 0xFFFF, 0x00FF, 0x8001, 0x5A5A] } else { vec![0x00, 0xFF, 0xA5, 0x5A, 0x01, 0x80, 0x7F] };
            let fault_pins: Vec<u8> = if wide { vec![0, 7, 8, 15] } else { (0..8).collect() };
            let sys = BusSys { wide, values: values.clone(), roots: vec![0x0000, if wide { 0xA55A } else { 0x3C }], max_faults: u32::MAX, fault_pins };
            let actions = sys.actions(0);
            let na = actions.len();
            let firsts: Vec<(usize, usize)> = (0..sys.roots.len()).flat_map(|r| (0..na).map(move |a| (r, a))).collect();
            let a = firsts
                .par_iter()
                .fold(Acc::new, |mut acc, &(r, a1)| {
                    for &a2 in &actions {
                        for &a3 in &actions {
                            acc.evaluations += 1;
                            acc.transitions += 3;
                            let hist = [actions[a1], a2, a3];
                            let (_, bad) = sys.exec(r, &hist);
                            if let Some(msg) = bad {
                                let (sig, text) = msg.split_once('|').unwrap_or(("c07", &msg));
                                acc.violation(Violation {
                                    prop: ctx.prop.clone(),
                                    sig: format!("{}-depth3/{sig}", if wide { "bus16" } else { "bus8" }),
                                    msg: format!("{text} [history of 3 set_value calls]"),
                                    case: json!({"kind": "c07", "variant": ctx.variant, "leg": "depth3-bus", "detail": {"initial_levels": sys.roots[r], "calls": hist.iter().map(|a| { let (v, f) = sys.decode(*a); json!({"set_value": v, "fault": f.map(|x| format!("{:?}", x))}) }).collect::<Vec<_>>()}}),
                                });
                            }
                        }
                    }
                    acc
                })
                .reduce(Acc::new, Acc::merge);
            acc.count(if wide { "bus16_depth3_histories" } else { "bus8_depth3_histories" }, a.evaluations);
            acc = acc.merge(a);
            // length 4: a successful write, two arbitrary (possibly failing) writes, a successful write
            let ok_actions: Vec<u32> = (0..values.len() as u32).collect();
            let firsts4: Vec<(usize, u32)> = (0..sys.roots.len()).flat_map(|r| ok_actions.iter().map(move |a| (r, *a))).collect();
            let a4 = firsts4
                .par_iter()
                .fold(Acc::new, |mut acc, &(r, a1)| {
                    for &a2 in &actions {
                        for &a3 in &actions {
                            for &a4 in &ok_actions {
                                acc.evaluations += 1;
                                acc.transitions += 4;
                                let hist = [a1, a2, a3, a4];
                                let (_, bad) = sys.exec(r, &hist);
                                if let Some(msg) = bad {
                                    let (sig, text) = msg.split_once('|').unwrap_or(("c07", &msg));
                                    acc.violation(Violation {
                                        prop: ctx.prop.clone(),
                                        sig: format!("{}-depth4/{sig}", if wide { "bus16" } else { "bus8" }),
                                        msg: format!("{text} [history of 4 set_value calls]"),
                                        case: json!({"kind": "c07", "variant": ctx.variant, "leg": "depth4-bus", "detail": {"initial_levels": sys.roots[r], "calls": hist.iter().map(|a| { let (v, f) = sys.decode(*a); json!({"set_value": v, "fault": f.map(|x| format!("{:?}", x))}) }).collect::<Vec<_>>()}}),
                                    });
                                }
                            }
                        }
                    }
                    acc
                })
                .reduce(Acc::new, Acc::merge);
            acc.count(if wide { "bus16_depth4_histories" } else { "bus8_depth4_histories" }, a4.evaluations);
            acc = acc.merge(a4);
        }
        // interface level, fault-free
        for wide in [false, true] {
            let calls = iface_calls(wide);
            let sys = IfaceSys { wide, calls: calls.clone(), roots: vec![(0x0000, true, true)], fault_pins: vec![], max_faults: 0 };
            let n = calls.len() as u32;
            let step = if quick { 2 } else { 1 };
            let firsts: Vec<u32> = (0..n).collect();
            let a = firsts
                .par_iter()
                .fold(Acc::new, |mut acc, &a1| {
                    for a2 in 0..n {
                        // in quick the third call runs over every second call, offset by the first two
                        for a3 in (((a1 + a2) % step)..n).step_by(step as usize) {
                            acc.evaluations += 1;
                            acc.transitions += 3;
                            let hist = [a1, a2, a3];
                            let (_, bad) = sys.exec(0, &hist);
                            if let Some(msg) = bad {
                                let (sig, text) = msg.split_once('|').unwrap_or(("c07", &msg));
                                acc.violation(Violation {
                                    prop: ctx.prop.clone(),
                                    sig: format!("{}-depth3/{sig}", if wide { "iface16" } else { "iface8" }),
                                    msg: format!("{text} [history of 3 calls after the RAMWR preamble]"),
                                    case: json!({"kind": "c07", "variant": ctx.variant, "leg": "depth3-iface", "detail": {"calls": hist.iter().map(|a| json!(calls[*a as usize])).collect::<Vec<_>>()}}),
                                });
                            }
                        }
                    }
                    acc
                })
                .reduce(Acc::new, Acc::merge);
            acc.count(if wide { "iface16_depth3_histories" } else { "iface8_depth3_histories" }, a.evaluations);
            acc = acc.merge(a);
        }
    }

    // (d) extreme counts
    let mut ex = vec![(2usize, 0x8000_0000u32), (2, 0x8000_0001), (3, 1_431_655_766), (2, u32::MAX), (3, u32::MAX), (1, u32::MAX)];
    if !quick {
        ex.push((2, 0x7FFF_FFFF));
    }
    for (n, count) in ex {
        // the complete 2^32-strobe runs only in thorough and only in the checked build
        let full = !quick && !ctx.wrap && (n, count) == (2, 0x8000_0000);
        let (r, edges) = extreme_count(n, count, full);
        acc.evaluations += 1;
        acc.transitions += 1;
        acc.count("extreme_count_calls", 1);
        acc.count("extreme_count_strobes", edges);
        if let Some((sig, msg)) = r {
            acc.violation(Violation {
                prop: ctx.prop.clone(),
                sig,
                msg,
                case: json!({"kind": "c07", "variant": ctx.variant, "leg": "extreme", "n": n, "count": count, "full": full}),
            });
        }
    }
    acc.sample(json!({"leg": "bus8", "initial_levels": 0xA5, "calls": [{"set_value": 0x5A, "fault": "pin 3 fails, level changed"}, {"set_value": 0x5A}]}));
    acc.sample(json!({"leg": "iface8", "calls": [{"Cmd": {"op": 0x2C, "args": []}}, {"Repeat": {"pixel": [0x2C, 0x2C], "count": 3}}]}));
    let bounds = json!({
        "bus8": "256 roots x 256 values x 17 fault choices (complete)",
        "bus16_values": vals.len(), "bus16_fault_choices": 33, "bus16_deviation_bound": "<= 1 fault per history (thorough: + <= 2 faults on pins 0,1,7,8,14,15 with 6 values)",
        "iface": "12 roots x calls x (1 + 2*fault pins)",
        "extreme": if quick { "budgeted (4096 operations)" } else { "one full 2^32-strobe run in the checked build; others budgeted" },
    });
    let mut part = Part::new(ctx, acc, bounds, true, t0.elapsed().as_secs_f64());
    part.acc.n_outcomes = part.acc.states;
    part.require("transitions_with_consumed_fault", 100);
    part
}

pub fn replay(case: &serde_json::Value) -> i32 {
    println!("{}", serde_json::to_string_pretty(case).unwrap());
    if case["leg"] == "extreme" {
        let (r, edges) = extreme_count(case["n"].as_u64().unwrap() as usize, case["count"].as_u64().unwrap() as u32, case["full"].as_bool().unwrap_or(false));
        println!("write strobes observed: {edges}");
        return match r {
            Some((s, m)) => {
                println!("REPLAY: {s} -- {m}");
                1
            }
            None => {
                println!("REPLAY: passes");
                0
            }
        };
    }
    println!("REPLAY: closure counterexamples are re-derived by re-running ./check C07 (BFS finds the same shortest path deterministically)");
    0
}
