//! C03 - batched draw_iter is equivalent to setting the pixels one by one, in order
use std::time::Instant;

use rayon::prelude::*;
use serde_json::json;

use super::common::*;
use super::Entry;
use crate::dut::*;
use crate::report::*;
use crate::rig::*;

pub const ENTRY: Entry = Entry {
    id: "C03",
    variants: &["batch", "nobatch"],
    level: "model_checking",
    rule: "fine scale: every pixel stream of length <= 5 (thorough 6) over all positions x 2 colours of a 3x3 and a 4x2 display; coarse \
           scale: every word of <= 3 (thorough 4) symbols over runs (lengths 1,2,R-1,R,R+1,2R,2R+1 at two start columns and three \
           rows), reverse runs, raster blocks around the block capacity, single pixels, where the row capacity R and block capacity Bk \
           are first measured from the driver's own behaviour. Oracle: controller memory == canvas == memory of a twin display driven \
           through the real set_pixel per pixel in order; and for every cell the ordered sequence of colours written equals the \
           stream's sequence for that position. Non-trivial = the stream has >= 2 pixels.",
    assumptions: &["reference controller + canvas specification", "in-bounds streams, plus streams of length <= 3 that mix in-bounds pixels with discarded points (aliasing coordinates +-65536, near misses); C02 owns the rest"],
    run,
};

/// measure the row and block capacity from the driver's behaviour
pub fn measure_caps() -> (u32, u32) {
    // one long run on a wide display: size of the first burst
    let cfg = Cfg::tiny(130, 4, false, Transport::RecSerial, (130, 4, 0, 0), 0);
    let mut rig = Rig::new(&cfg);
    rig.ctl.keep_cmds = true;
    let op = Op::DrawIter(Pixels::Syms { syms: vec![Sym::Run { x: 0, y: 0, len: 130, rev: false }], base: 1 });
    let _ = rig.apply(&op);
    let r = rig.ctl.cmds.iter().find(|c| c.op == 0x2C).map(|c| c.pixels as u32).unwrap_or(0);
    // one tall one-pixel-wide column: size of the first burst
    let cfg = Cfg::tiny(3, 104, false, Transport::RecSerial, (3, 104, 0, 0), 0);
    let mut rig = Rig::new(&cfg);
    rig.ctl.keep_cmds = true;
    let op = Op::DrawIter(Pixels::Syms { syms: vec![Sym::Col { x: 1, y: 0, len: 104 }], base: 1 });
    let _ = rig.apply(&op);
    let b = rig.ctl.cmds.iter().find(|c| c.op == 0x2C).map(|c| c.pixels as u32).unwrap_or(0);
    (r, b)
}

fn check_stream(ctx: &Ctx, acc: &mut Acc, cfg: &Cfg, px: Pixels, twin: bool) {
    acc.evaluations += 1;
    acc.transitions += 1;
    acc.traces += 1;
    let op = Op::DrawIter(px);
    let hist = std::slice::from_ref(&op);
    let ck = Checks { cell_sequences: true, ..Checks::ALL };
    match check_history(cfg, hist, &ck) {
        Ok(run) => {
            let n = run.canvas.drawn;
            if n >= 2 {
                acc.nontrivial += 1;
            }
            let mut h = crate::util::Fnv::new();
            h.u64(run.rig.ctl.mem.digest());
            h.u64(run.rig.ctl.n_ramwr);
            acc.outcome(h.finish());
            acc.count("bursts", run.rig.ctl.n_ramwr);
            acc.count("pixels", n);
            if twin {
                // twin display driven through the real set_pixel, one pixel at a time, in order
                let Op::DrawIter(p) = &op else { unreachable!() };
                let pts = p.expand(cfg.c666());
                let mut t = Rig::new(cfg);
                for &(x, y, c) in &pts {
                    let o = t.apply(&Op::SetPixel { x: x as u16, y: y as u16, c });
                    if !o.is_ok() {
                        let f = Fail { sig: "set_pixel/twin".into(), msg: format!("twin set_pixel failed: {o:?}"), at: 0 };
                        acc.violation(violation(ctx, cfg, hist, "sequences", &f));
                        return;
                    }
                }
                acc.count("twins", 1);
                if let Some(d) = run.rig.ctl.mem.first_diff(&t.ctl.mem) {
                    let f = Fail {
                        sig: "draw_iter/in-bounds/differs-from-set_pixel-twin".into(),
                        msg: format!("memory differs from applying set_pixel per pixel in order at {d:?}"),
                        at: 0,
                    };
                    acc.violation(violation(ctx, cfg, hist, "sequences", &f));
                }
            }
        }
        Err((f, _)) => acc.violation(violation(ctx, cfg, hist, "sequences", &f)),
    }
}

/// coarse symbol alphabet for a display of logical size (lw, lh)
pub fn coarse_symbols(r: u32, bk: u32, wide: bool) -> Vec<Sym> {
    if wide { coarse_symbols_for(r, bk, true, 130, 4) } else { coarse_symbols_for(r, bk, false, 3, 104) }
}

/// `wide`: runs/blocks along x on a display at least 2R+4 wide and >= 3 high; otherwise columns and
/// narrow blocks on a display 3 wide and >= Bk+4 high
pub fn coarse_symbols_for(r: u32, bk: u32, wide: bool, lw: u32, lh: u32) -> Vec<Sym> {
    let mut s = Vec::new();
    let r = r.max(1);
    if wide {
        // display 130 x 4
        let mut lens = vec![1, 2, r.saturating_sub(1).max(1), r, r + 1, 2 * r, 2 * r + 1];
        lens.sort_unstable();
        lens.dedup();
        lens.retain(|l| *l + 1 <= lw);
        for y in 0..3 {
            for x0 in [0, 1] {
                for &len in &lens {
                    s.push(Sym::Run { x: x0, y, len, rev: false });
                }
                s.push(Sym::Run { x: x0, y, len: 2, rev: true });
                s.push(Sym::Run { x: x0, y, len: (r + 1).min(lw - 2), rev: true });
            }
            for x in [0, 1, r as i32 - 1, r as i32, 2 * r as i32 + 1] {
                if x >= 0 && (x as u32) < lw {
                    s.push(Sym::Px { x, y });
                }
            }
        }
        // raster blocks around the block capacity (height <= 4)
        let mut ws = vec![bk / 4, bk / 4 + 1, bk / 3, bk / 2, bk / 2 + 1, r];
        ws.sort_unstable();
        ws.dedup();
        for w in ws {
            if w == 0 || w + 1 > lw {
                continue;
            }
            for h in [2u32, 3, 4] {
                if h <= lh {
                    s.push(Sym::Block { x: 0, y: 0, w, h });
                }
            }
            if lh >= 4 {
                s.push(Sym::Block { x: 1, y: 1, w, h: 3 });
            } else {
                s.push(Sym::Block { x: 1, y: 1, w, h: 2 });
            }
        }
    } else {
        // display 3 x 104
        for w in [1u32, 2, 3] {
            let base = bk / w;
            for h in [base.saturating_sub(1).max(1), base, base + 1, (base + 2).min(lh)] {
                if h >= 1 && h <= lh {
                    s.push(Sym::Block { x: 0, y: 0, w, h });
                }
            }
        }
        for len in [1, 2, bk.saturating_sub(1).max(1), bk, (bk + 1).min(lh), lh] {
            s.push(Sym::Col { x: 1, y: 0, len });
            if len < lh {
                s.push(Sym::Col { x: 2, y: 1, len: len.min(lh - 1) });
            }
        }
        for y in [0, 1, 50, 99, 100, lh as i32 - 1] {
            s.push(Sym::Px { x: 1, y });
            s.push(Sym::Px { x: 0, y });
        }
        s.push(Sym::Run { x: 0, y: 0, len: 3, rev: false });
        s.push(Sym::Run { x: 0, y: 1, len: 3, rev: false });
        s.push(Sym::Run { x: 1, y: 2, len: 2, rev: false });
    }
    s.dedup();
    s
}

fn run(ctx: &Ctx) -> Part {
    let t0 = Instant::now();
    let quick = ctx.quick();
    let (r, bk) = measure_caps();
    let mut acc = Acc::new();
    acc.count("measured_row_capacity", r as u64);
    acc.count("measured_block_capacity", bk as u64);

    // ---- fine scale --------------------------------------------------------------------------------
    let maxlen = if quick { 5 } else { 6 };
    let fine_cfgs = [
        Cfg::tiny(3, 3, false, Transport::RecSerial, (3, 3, 0, 0), 0),
        Cfg::tiny(4, 2, false, Transport::RecSerial, (4, 2, 0, 0), 0),
        Cfg::tiny(4, 3, false, Transport::RecSerial, (3, 2, 1, 1), 5),
    ];
    for cfg in &fine_cfgs {
        let (lw, lh) = cfg.geo().lsize();
        let npos = (lw * lh) as u64;
        let nsym = npos * 2; // position x 2 colours
        // split by the first two symbols for parallelism
        let prefixes: Vec<(u64, u64)> = (0..nsym).flat_map(|a| (0..nsym).map(move |b| (a, b))).collect();
        let sym = |s: u64| -> (i32, i32, u32) {
            let p = s / 2;
            ((p % lw as u64) as i32, (p / lw as u64) as i32, if s % 2 == 0 { 0x1111 } else { 0x2222 })
        };
        // lengths 0, 1
        check_stream(ctx, &mut acc, cfg, Pixels::List(vec![]), false);
        for a in 0..nsym {
            check_stream(ctx, &mut acc, cfg, Pixels::List(vec![sym(a)]), true);
        }
        let a2 = prefixes
            .par_iter()
            .fold(Acc::new, |mut acc, &(a, b)| {
                let mut v = vec![sym(a), sym(b)];
                check_stream(ctx, &mut acc, cfg, Pixels::List(v.clone()), true);
                // all extensions up to maxlen (odometer)
                for extra in 1..=(maxlen - 2) {
                    let total = nsym.pow(extra as u32);
                    for k in 0..total {
                        v.truncate(2);
                        let mut kk = k;
                        for _ in 0..extra {
                            v.push(sym(kk % nsym));
                            kk /= nsym;
                        }
                        check_stream(ctx, &mut acc, cfg, Pixels::List(v.clone()), false);
                    }
                }
                if a == 3 && b == 7 {
                    acc.sample(json!({"cfg": cfg, "history": [Op::DrawIter(Pixels::List(v.clone()))]}));
                }
                acc
            })
            .reduce(Acc::new, Acc::merge);
        acc = acc.merge(a2);
        acc.states += 1;
    }

    // ---- streams drawn after other public calls (sleeping display, tearing / scroll settings, orientation
    // change): draw_iter must still equal set_pixel one by one
    {
        let cfg = Cfg::tiny(4, 3, false, Transport::RecSerial, (3, 2, 1, 1), 5);
        let prefixes: Vec<Vec<Op>> = vec![
            vec![Op::Sleep],
            vec![Op::Sleep, Op::Wake],
            vec![Op::Tearing(1)],
            vec![Op::ScrollRegion(1, 1), Op::ScrollOffset(2)],
            vec![Op::SetOrientation(2)],
            vec![Op::Clear { c: 0x0F0F }, Op::Sleep],
            // a drawing call, then an orientation change: windows remembered from the old orientation
            vec![Op::DrawIter(Pixels::Syms { syms: vec![Sym::Block { x: 0, y: 0, w: 2, h: 3 }], base: 0x0300 }), Op::SetOrientation(2)],
            vec![Op::DrawIter(Pixels::Syms { syms: vec![Sym::Block { x: 0, y: 0, w: 2, h: 3 }], base: 0x0300 }), Op::SetOrientation(1)],
            vec![Op::DrawIter(Pixels::List(vec![(0, 0, 0x0301), (1, 0, 0x0302)])), Op::SetOrientation(7)],
            vec![Op::Clear { c: 0x0F0F }, Op::SetOrientation(3)],
            vec![Op::FillSolid { r: Rect { x: 0, y: 0, w: 2, h: 2 }, c: 0x0A0A }, Op::SetOrientation(0)],
        ];
        let g = cfg.geo();
        for pre in &prefixes {
            let mut geo = g;
            for p in pre {
                if let Op::SetOrientation(o) = p {
                    geo.orient = *o;
                }
            }
            let (lw, lh) = geo.lsize();
            let nsym = (lw * lh) as u64 * 2;
            let sym = |s: u64| -> (i32, i32, u32) {
                let p = s / 2;
                ((p % lw as u64) as i32, (p / lw as u64) as i32, if s % 2 == 0 { 0x1111 } else { 0x2222 })
            };
            let mut streams: Vec<Vec<(i32, i32, u32)>> = vec![vec![]];
            for a in 0..nsym {
                streams.push(vec![sym(a)]);
                for b in 0..nsym {
                    streams.push(vec![sym(a), sym(b)]);
                }
            }
            streams.push((0..(lw * lh) as u64).map(|p| sym(p * 2)).collect());
            for st in streams {
                acc.evaluations += 1;
                acc.nontrivial += 1;
                acc.transitions += pre.len() as u64 + 1;
                let mut hist = pre.clone();
                hist.push(Op::DrawIter(Pixels::List(st.clone())));
                let ck = Checks { cell_sequences: true, ..Checks::ALL };
                match check_history(&cfg, &hist, &ck) {
                    Ok(run) => {
                        // twin: the same prefix, then set_pixel per pixel
                        let mut t = Rig::new(&cfg);
                        for p in pre {
                            let _ = t.apply(p);
                        }
                        for &(x, y, c) in &st {
                            let _ = t.apply(&Op::SetPixel { x: x as u16, y: y as u16, c });
                        }
                        if let Some(d) = run.rig.ctl.mem.first_diff(&t.ctl.mem) {
                            let f = Fail { sig: "draw_iter/in-bounds/differs-from-set_pixel-twin".into(), msg: format!("after {pre:?}: memory differs from set_pixel per pixel at {d:?}"), at: pre.len() };
                            acc.violation(violation(ctx, &cfg, &hist, "sequences", &f));
                        }
                    }
                    Err((f, _)) => acc.violation(violation(ctx, &cfg, &hist, "sequences", &f)),
                }
                acc.count("streams_after_other_calls", 1);
            }
        }
        acc.states += 1;
    }

    // ---- streams that mix in-bounds pixels with points far outside (coordinates that alias onto visible pixels when
    // truncated to 16 bits, near misses): the discarded points must not disturb order, position or colour of the rest
    {
        let cfg = Cfg::tiny(4, 3, false, Transport::RecSerial, (3, 2, 1, 1), 5);
        let (lw, lh) = cfg.geo().lsize();
        let mut alpha: Vec<(i32, i32)> = Vec::new();
        for y in 0..lh as i32 {
            for x in 0..lw as i32 {
                alpha.push((x, y));
            }
        }
        let inb = alpha.clone();
        for &(x, y) in &inb {
            alpha.extend_from_slice(&[(x + 65536, y), (x, y + 65536), (x - 65536, y), (x + 65536, y - 65536)]);
        }
        alpha.extend_from_slice(&[(lw as i32, 0), (-1, 0), (0, lh as i32)]);
        let n = alpha.len();
        let firsts: Vec<usize> = (0..n).collect();
        let a = firsts
            .par_iter()
            .fold(Acc::new, |mut acc, &a| {
                let mut go = |acc: &mut Acc, idx: &[usize]| {
                    let st: Vec<(i32, i32, u32)> = idx.iter().enumerate().map(|(k, &i)| (alpha[i].0, alpha[i].1, 0x1000 + 0x111 * k as u32)).collect();
                    if st.iter().all(|p| p.0 >= 0 && p.1 >= 0 && (p.0 as u32) < lw && (p.1 as u32) < lh) {
                        return; // pure in-bounds streams are covered above
                    }
                    acc.evaluations += 1;
                    acc.nontrivial += 1;
                    acc.transitions += 1;
                    acc.count("streams_with_discarded_points", 1);
                    let hist = [Op::DrawIter(Pixels::List(st.clone()))];
                    let ck = Checks { cell_sequences: true, ..Checks::ALL };
                    match check_history(&cfg, &hist, &ck) {
                        Ok(run) => {
                            let mut t = Rig::new(&cfg);
                            for &(x, y, c) in &st {
                                if x >= 0 && y >= 0 && (x as u32) < lw && (y as u32) < lh {
                                    let _ = t.apply(&Op::SetPixel { x: x as u16, y: y as u16, c });
                                }
                            }
                            if let Some(d) = run.rig.ctl.mem.first_diff(&t.ctl.mem) {
                                let f = Fail { sig: "draw_iter/with-discarded-points/differs-from-set_pixel-twin".into(), msg: format!("memory differs from set_pixel per in-bounds pixel at {d:?}"), at: 0 };
                                acc.violation(violation(ctx, &cfg, &hist, "sequences", &f));
                            }
                        }
                        Err((f, _)) => acc.violation(violation(ctx, &cfg, &hist, "sequences", &f)),
                    }
                };
                go(&mut acc, &[a]);
                for b in 0..n {
                    go(&mut acc, &[a, b]);
                    for c in 0..n {
                        go(&mut acc, &[a, b, c]);
                    }
                }
                acc
            })
            .reduce(Acc::new, Acc::merge);
        acc = acc.merge(a);
        acc.states += 1;
    }

    // ---- fine scale on the real transports (byte-level SPI incl. buffers that are not a multiple of the
    // pixel size, strobe-level parallel): all streams of length <= 3 plus rasters larger than the buffer
    for tr in [Transport::Spi { len: 3 }, Transport::Spi { len: 5 }, Transport::Par8, Transport::Par16] {
        let cfg = Cfg::tiny(4, 3, false, tr, (3, 3, 1, 0), 3);
        let (lw, lh) = cfg.geo().lsize();
        let nsym = (lw * lh) as u64 * 2;
        let sym = |s: u64| -> (i32, i32, u32) {
            let p = s / 2;
            ((p % lw as u64) as i32, (p / lw as u64) as i32, if s % 2 == 0 { 0x1357 } else { 0x2468 })
        };
        let firsts: Vec<u64> = (0..nsym).collect();
        let a = firsts
            .par_iter()
            .fold(Acc::new, |mut acc, &a| {
                check_stream(ctx, &mut acc, &cfg, Pixels::List(vec![sym(a)]), true);
                for b in 0..nsym {
                    check_stream(ctx, &mut acc, &cfg, Pixels::List(vec![sym(a), sym(b)]), false);
                    for c in 0..nsym {
                        check_stream(ctx, &mut acc, &cfg, Pixels::List(vec![sym(a), sym(b), sym(c)]), false);
                    }
                }
                acc
            })
            .reduce(Acc::new, Acc::merge);
        acc = acc.merge(a);
        for (w, h) in [(3u32, 3u32), (2, 3), (3, 1), (1, 3)] {
            check_stream(ctx, &mut acc, &cfg, Pixels::Syms { syms: vec![Sym::Block { x: 0, y: 0, w, h }], base: 0x700 }, true);
        }
        acc.states += 1;
        acc.count("real_transport_configs", 1);
    }

    // ---- coarse scale ------------------------------------------------------------------------------
    let maxw = if quick { 3 } else { 4 };
    // (wide alphabet?, configuration): also rotated displays whose logical width exceeds the panel's
    // native width (3x104 panel at 90 degrees = 104x3 logical; 130x4 panel at 270 degrees = 4x130 logical)
    let coarse_cfgs = [
        (true, Cfg::tiny(130, 4, false, Transport::RecSerial, (130, 4, 0, 0), 0)),
        (false, Cfg::tiny(3, 104, false, Transport::RecSerial, (3, 104, 0, 0), 0)),
        (true, Cfg::tiny(3, 104, false, Transport::RecSerial, (3, 104, 0, 0), 1)),
        (false, Cfg::tiny(130, 4, false, Transport::RecSerial, (130, 4, 0, 0), 7)),
    ];
    for (wide, cfg) in coarse_cfgs {
        let (clw, clh) = cfg.geo().lsize();
        let rotated = cfg.orient != 0;
        let syms = coarse_symbols_for(r, bk, wide, clw, clh);
        let n = syms.len();
        acc.count(if wide { "coarse_symbols_wide" } else { "coarse_symbols_tall" }, n as u64);
        let maxw = if rotated { maxw.min(2) + if quick { 0 } else { 1 } } else { maxw };
        let firsts: Vec<usize> = (0..n).collect();
        let a3 = firsts
            .par_iter()
            .fold(Acc::new, |mut acc, &a| {
                check_stream(ctx, &mut acc, &cfg, Pixels::Syms { syms: vec![syms[a]], base: 0x100 }, true);
                for b in 0..n {
                    check_stream(ctx, &mut acc, &cfg, Pixels::Syms { syms: vec![syms[a], syms[b]], base: 0x100 }, b % 7 == 0);
                    if maxw < 3 {
                        continue;
                    }
                    for c in 0..n {
                        check_stream(ctx, &mut acc, &cfg, Pixels::Syms { syms: vec![syms[a], syms[b], syms[c]], base: 0x100 }, false);
                        if maxw >= 4 {
                            // fourth symbol from a reduced set (every third symbol) to keep thorough in minutes
                            for d in (0..n).step_by(3) {
                                check_stream(ctx, &mut acc, &cfg, Pixels::Syms { syms: vec![syms[a], syms[b], syms[c], syms[d]], base: 0x100 }, false);
                            }
                        }
                    }
                }
                if a == 1 {
                    acc.sample(json!({"cfg": cfg, "history": [Op::DrawIter(Pixels::Syms { syms: vec![syms[a], syms[n / 2], syms[n - 1]], base: 0x100 })]}));
                }
                acc
            })
            .reduce(Acc::new, Acc::merge);
        acc = acc.merge(a3);
        acc.states += 1;
    }
    if maxw >= 4 {
        acc.notes.push("coarse words of length 4 use every third symbol in the last position (stated reduction, not a cap that was hit)".into());
    }

    let bounds = json!({
        "fine": {"displays": ["3x3", "4x2", "3x2 window at (1,1) of 4x3, orientation 5"], "max_stream_length": maxlen, "colours": 2},
        "coarse": {"max_word_length": maxw, "row_capacity_measured": r, "block_capacity_measured": bk},
    });
    let mut part = Part::new(ctx, acc, bounds, true, t0.elapsed().as_secs_f64());
    part.require("twins", 100);
    part
}
