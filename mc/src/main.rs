mod ctl;
mod dut;
mod e1;
mod env;
mod props;
mod report;
mod rig;
mod spec;
mod tr;
mod util;

use report::{Ctx, Part, Tier};

fn usage() -> ! {
    eprintln!("usage: mc <C01..C20> [--tier quick|thorough] [--part-out <file>] [--replay <file>]");
    std::process::exit(2)
}

/// does integer arithmetic in this build wrap silently (profile `wrap`) or panic?
fn arithmetic_wraps() -> bool {
    let r = std::panic::catch_unwind(|| {
        let a = std::hint::black_box(255u8);
        let b = std::hint::black_box(1u8);
        #[allow(arithmetic_overflow)]
        let c = a + b;
        std::hint::black_box(c)
    });
    r.is_ok()
}

fn main() {
    std::panic::set_hook(Box::new(|_| {}));
    let wraps = arithmetic_wraps();
    rig::install_panic_hook();
    let args: Vec<String> = std::env::args().skip(1).collect();
    if args.is_empty() {
        usage();
    }
    if args[0] == "variants" {
        let e = props::lookup(args.get(1).map(|s| s.as_str()).unwrap_or("")).unwrap_or_else(|| usage());
        println!("{}", e.variants.join(" "));
        return;
    }
    let prop = args[0].clone();
    let mut tier = match std::env::var("VERIF_TIER").ok().as_deref() {
        Some("thorough") => Tier::Thorough,
        _ => Tier::Quick,
    };
    let mut part_out: Option<String> = None;
    let mut replay: Option<String> = None;
    let mut i = 1;
    while i < args.len() {
        match args[i].as_str() {
            "--tier" => {
                i += 1;
                tier = match args.get(i).map(|s| s.as_str()) {
                    Some("quick") => Tier::Quick,
                    Some("thorough") => Tier::Thorough,
                    _ => usage(),
                };
            }
            "--part-out" => {
                i += 1;
                part_out = Some(args.get(i).cloned().unwrap_or_else(|| usage()));
            }
            "--replay" => {
                i += 1;
                replay = Some(args.get(i).cloned().unwrap_or_else(|| usage()));
            }
            _ => usage(),
        }
        i += 1;
    }
    let variant = std::env::var("MC_VARIANT").unwrap_or_else(|_| {
        if cfg!(feature = "batch") { "batch".into() } else { "nobatch".into() }
    });
    let ctx = Ctx {
        prop: prop.clone(),
        tier,
        batch: cfg!(feature = "batch"),
        wrap: wraps,
        ptr16: variant.contains("ptr16"),
        variant: variant.clone(),
        seed: std::env::var("VERIF_SEED").ok().and_then(|s| s.parse().ok()).unwrap_or(0),
    };
    // consistency of the declared variant with what was really compiled
    if variant.contains("nobatch") == ctx.batch || variant.contains("wrap") != wraps {
        eprintln!("MACHINERY: variant '{variant}' does not match the build (batch={}, wraps={wraps})", ctx.batch);
        std::process::exit(2);
    }
    if let Some(n) = std::env::var("MC_THREADS").ok().and_then(|s| s.parse::<usize>().ok()) {
        rayon::ThreadPoolBuilder::new().num_threads(n).build_global().unwrap();
    }

    if let Some(path) = replay {
        std::process::exit(props::replay(&ctx, &path));
    }

    // engine caps: resident memory and wall clock.  Hitting one is a machinery exit (3), never a verdict: a driver
    // change that makes the harness itself blow up must not take the machine down or hang a pipeline.
    {
        let max_rss_gb: u64 = std::env::var("MC_MAX_RSS_GB").ok().and_then(|s| s.parse().ok()).unwrap_or(28);
        let max_wall_s: u64 = std::env::var("MC_MAX_WALL_S").ok().and_then(|s| s.parse().ok()).unwrap_or(if tier == Tier::Quick { 1800 } else { 6 * 3600 });
        let prop = prop.clone();
        std::thread::spawn(move || {
            let t0 = std::time::Instant::now();
            loop {
                std::thread::sleep(std::time::Duration::from_millis(250));
                if let Ok(s) = std::fs::read_to_string("/proc/self/statm") {
                    let pages: u64 = s.split_whitespace().nth(1).and_then(|x| x.parse().ok()).unwrap_or(0);
                    if pages * 4096 > max_rss_gb << 30 {
                        eprintln!("MACHINERY: {prop}: resident memory exceeded the harness cap of {max_rss_gb} GiB (MC_MAX_RSS_GB)");
                        std::process::exit(3);
                    }
                }
                if t0.elapsed().as_secs() > max_wall_s {
                    eprintln!("MACHINERY: {prop}: wall-clock cap of {max_wall_s} s exceeded (MC_MAX_WALL_S)");
                    std::process::exit(3);
                }
            }
        });
    }

    let Some(entry) = props::lookup(&prop) else {
        eprintln!("unknown property {prop}");
        std::process::exit(2)
    };

    if let Some(out) = part_out {
        // sub-run for one variant: dump the part and leave the verdict to the orchestrator
        let part: Part = (entry.run)(&ctx);
        std::fs::write(&out, serde_json::to_string(&part).unwrap()).expect("write part");
        return;
    }

    // orchestrator: own part + sibling variants
    let mut parts = vec![(entry.run)(&ctx)];
    let siblings = std::env::var("MC_SIBLINGS").unwrap_or_default();
    for sib in siblings.split(';').filter(|s| !s.is_empty()) {
        let (name, bin) = sib.split_once('=').expect("MC_SIBLINGS entry must be name=path");
        if !entry.variants.contains(&name) {
            continue;
        }
        let od = report::out_dir().join("evidence");
        let _ = std::fs::create_dir_all(&od);
        let tmp = format!("{}/.part-{}-{}-{}.json", od.display(), prop, name, std::process::id());
        let st = std::process::Command::new(bin)
            .arg(&prop)
            .arg("--tier")
            .arg(if tier == Tier::Quick { "quick" } else { "thorough" })
            .arg("--part-out")
            .arg(&tmp)
            .env("MC_VARIANT", name)
            .status()
            .expect("spawn sibling");
        if !st.success() {
            eprintln!("MACHINERY: sibling variant {name} failed with {st}");
            let _ = std::fs::remove_file(&tmp);
            std::process::exit(2);
        }
        let s = std::fs::read_to_string(&tmp).expect("read part");
        let _ = std::fs::remove_file(&tmp);
        let mut p: Part = serde_json::from_str(&s).expect("parse part");
        // the outcome set is not serialised; its size is
        p.acc.outcomes.clear();
        parts.push(p);
    }
    // MC_ALLOW_PARTIAL=1: developer sweeps that deliberately run the default-feature variant alone (never set by ./check
    // for MANIFEST commands)
    let partial = std::env::var_os("MC_ALLOW_PARTIAL").is_some();
    for want in entry.variants {
        if !partial && !parts.iter().any(|p| p.variant == *want) {
            eprintln!("MACHINERY: variant '{want}' required by {prop} was not run (MC_SIBLINGS={siblings})");
            std::process::exit(2);
        }
    }
    let code = report::finish(&ctx, entry.level, entry.rule, entry.assumptions, parts);
    std::process::exit(code);
}
