//! Device under test: the real mipidsi `Display` behind an object-safe facade, plus the
//! const-generic external test model and the construction matrix (model x transport x reset pin).
#![allow(dead_code)]

use std::marker::PhantomData;

use embedded_graphics_core::draw_target::DrawTarget;
use embedded_graphics_core::geometry::{Dimensions, OriginDimensions, Point, Size};
use embedded_graphics_core::pixelcolor::raw::{RawU16, RawU24};
use embedded_graphics_core::pixelcolor::{Rgb565, Rgb666, Rgb888, RgbColor};
use embedded_graphics_core::prelude::RawData;
use embedded_graphics_core::primitives::Rectangle;
use embedded_graphics_core::Pixel;
use embedded_hal::delay::DelayNs;
use mipidsi::dcs::{
    BitsPerPixel, DcsCommand, ExitSleepMode, InterfaceExt, PixelFormat, SetAddressMode,
    SetDisplayOn, SetInvertMode, SetPixelFormat,
};
use mipidsi::interface::{
    Generic16BitBus, Generic8BitBus, Interface, InterfaceKind, InterfacePixelFormat,
    ParallelError, ParallelInterface, SpiError, SpiInterface,
};
use mipidsi::models::{Model, ModelInitError};
use mipidsi::options::{
    ColorInversion, ColorOrder, HorizontalRefreshOrder, ModelOptions, Orientation, RefreshOrder,
    Rotation, TearingEffect, VerticalRefreshOrder,
};
use mipidsi::{Builder, ConfigurationError, Display, InitError};

use crate::env::*;

// ------------------------------------------------------------------------------------------------
// colours

pub trait Col: RgbColor + Copy + 'static {
    const BITS666: bool;
    fn from_idx(i: u32) -> Self;
    fn to_idx(self) -> u32;
    /// (r,g,b) packed like the controller model packs a decoded pixel
    fn packed(self) -> u32 {
        (self.r() as u32) << 16 | (self.g() as u32) << 8 | self.b() as u32
    }
}
impl Col for Rgb565 {
    const BITS666: bool = false;
    fn from_idx(i: u32) -> Self {
        Rgb565::from(RawU16::new(i as u16))
    }
    fn to_idx(self) -> u32 {
        RawU16::from(self).into_inner() as u32
    }
}
impl Col for Rgb666 {
    const BITS666: bool = true;
    fn from_idx(i: u32) -> Self {
        Rgb666::from(RawU24::new(i))
    }
    fn to_idx(self) -> u32 {
        RawU24::from(self).into_inner()
    }
}
impl Col for Rgb888 {
    const BITS666: bool = false;
    fn from_idx(i: u32) -> Self {
        Rgb888::from(RawU24::new(i))
    }
    fn to_idx(self) -> u32 {
        RawU24::from(self).into_inner()
    }
}

/// `u32 -> colour` adapter that forwards `nth` (so large skips stay O(1) in the harness iterator)
pub struct MapCol<'a, C>(pub &'a mut dyn Iterator<Item = u32>, pub PhantomData<C>);
impl<'a, C: Col> Iterator for MapCol<'a, C> {
    type Item = C;
    #[inline]
    fn next(&mut self) -> Option<C> {
        self.0.next().map(C::from_idx)
    }
    #[inline]
    fn nth(&mut self, n: usize) -> Option<C> {
        self.0.nth(n).map(C::from_idx)
    }
    #[inline]
    fn size_hint(&self) -> (usize, Option<usize>) {
        self.0.size_hint()
    }
}

/// packed (r,g,b) of colour index `i` in the given format: what the controller must decode
pub fn packed_of(c666: bool, i: u32) -> u32 {
    if c666 {
        Rgb666::from_idx(i).packed()
    } else {
        Rgb565::from_idx(i).packed()
    }
}

// ------------------------------------------------------------------------------------------------
// option encodings

pub fn orient_of(o: u8) -> Orientation {
    let rotation = match o & 3 {
        0 => Rotation::Deg0,
        1 => Rotation::Deg90,
        2 => Rotation::Deg180,
        _ => Rotation::Deg270,
    };
    let mut r = Orientation::new().rotate(rotation);
    r.mirrored = o >= 4;
    r
}
pub fn orient_idx(o: Orientation) -> u8 {
    let r = match o.rotation {
        Rotation::Deg0 => 0,
        Rotation::Deg90 => 1,
        Rotation::Deg180 => 2,
        Rotation::Deg270 => 3,
    };
    r + if o.mirrored { 4 } else { 0 }
}
pub fn refresh_of(r: u8) -> RefreshOrder {
    RefreshOrder::new(
        if r & 1 != 0 { VerticalRefreshOrder::BottomToTop } else { VerticalRefreshOrder::TopToBottom },
        if r & 2 != 0 { HorizontalRefreshOrder::RightToLeft } else { HorizontalRefreshOrder::LeftToRight },
    )
}
pub fn refresh_idx(r: RefreshOrder) -> u8 {
    (r.vertical == VerticalRefreshOrder::BottomToTop) as u8
        | ((r.horizontal == HorizontalRefreshOrder::RightToLeft) as u8) << 1
}
pub fn madctl_byte(m: SetAddressMode) -> u8 {
    let mut b = [0u8; 1];
    m.fill_params_buf(&mut b);
    b[0]
}

// ------------------------------------------------------------------------------------------------
// external test model

/// Const-generic external model ("arbitrary external Model impl"): announces MADCTL, COLMOD,
/// inversion, sleep-out and display-on through the public `dcs` API.
pub struct Tiny<const FW: u16, const FH: u16, C>(pub PhantomData<C>);

impl<const FW: u16, const FH: u16, C: Col> Model for Tiny<FW, FH, C> {
    type ColorFormat = C;
    const FRAMEBUFFER_SIZE: (u16, u16) = (FW, FH);

    fn init<DELAY, DI>(
        &mut self,
        di: &mut DI,
        delay: &mut DELAY,
        options: &ModelOptions,
    ) -> Result<SetAddressMode, ModelInitError<DI::Error>>
    where
        DELAY: DelayNs,
        DI: Interface,
    {
        let madctl = SetAddressMode::from(options);
        di.write_command(madctl)?;
        let pf = PixelFormat::with_all(BitsPerPixel::from_rgb_color::<C>());
        di.write_command(SetPixelFormat::new(pf))?;
        di.write_command(SetInvertMode::new(options.invert_colors))?;
        di.write_command(ExitSleepMode)?;
        delay.delay_us(120_000);
        di.write_command(SetDisplayOn)?;
        Ok(madctl)
    }
}

/// External model of a panel with hard-wired colour / refresh order: it programs and returns the
/// all-zero address mode whatever the options say (a legitimate `Model`: the returned value is what it sent).
pub struct Fixed43;
impl Model for Fixed43 {
    type ColorFormat = Rgb565;
    const FRAMEBUFFER_SIZE: (u16, u16) = (4, 3);
    fn init<DELAY, DI>(&mut self, di: &mut DI, delay: &mut DELAY, options: &ModelOptions) -> Result<SetAddressMode, ModelInitError<DI::Error>>
    where
        DELAY: DelayNs,
        DI: Interface,
    {
        let madctl = SetAddressMode::default();
        di.write_command(madctl)?;
        di.write_command(SetPixelFormat::new(PixelFormat::with_all(BitsPerPixel::Sixteen)))?;
        di.write_command(SetInvertMode::new(options.invert_colors))?;
        di.write_command(ExitSleepMode)?;
        delay.delay_us(120_000);
        di.write_command(SetDisplayOn)?;
        Ok(madctl)
    }
}

// ------------------------------------------------------------------------------------------------
// error classification

#[derive(Clone, Debug, PartialEq, Eq, Hash, serde::Serialize, serde::Deserialize)]
pub enum ErrClass {
    SpiSpi { op: u64 },
    SpiDc { op: u64 },
    ParBus { pin: u8, op: u64 },
    ParDc { op: u64 },
    ParWr { op: u64 },
    Rec { op: u64 },
    InitInterface(Box<ErrClass>),
    InitResetPin { op: u64 },
    UnsupportedInterface,
    InvalidDisplaySize,
    InvalidDisplayOffset,
    OtherConfig,
}
impl ErrClass {
    /// op index of the injected failure this error carries
    pub fn op(&self) -> Option<u64> {
        match self {
            ErrClass::SpiSpi { op }
            | ErrClass::SpiDc { op }
            | ErrClass::ParBus { op, .. }
            | ErrClass::ParDc { op }
            | ErrClass::ParWr { op }
            | ErrClass::Rec { op }
            | ErrClass::InitResetPin { op } => Some(*op),
            ErrClass::InitInterface(b) => b.op(),
            _ => None,
        }
    }
}

pub trait Classify {
    fn classify(&self) -> ErrClass;
}
impl Classify for RecFault {
    fn classify(&self) -> ErrClass {
        ErrClass::Rec { op: self.op }
    }
}
impl Classify for SpiError<SpiFault, PinFault> {
    fn classify(&self) -> ErrClass {
        match self {
            SpiError::Spi(e) => ErrClass::SpiSpi { op: e.op },
            SpiError::Dc(e) => ErrClass::SpiDc { op: e.op },
        }
    }
}
impl Classify for ParallelError<PinFault, PinFault, PinFault> {
    fn classify(&self) -> ErrClass {
        match self {
            ParallelError::Bus(e) => ErrClass::ParBus { pin: e.pin, op: e.op },
            ParallelError::Dc(e) => ErrClass::ParDc { op: e.op },
            ParallelError::Wr(e) => ErrClass::ParWr { op: e.op },
        }
    }
}
pub fn classify_init<E: Classify>(e: &InitError<E, PinFault>) -> ErrClass {
    match e {
        InitError::Interface(e) => ErrClass::InitInterface(Box::new(e.classify())),
        InitError::ResetPin(p) => ErrClass::InitResetPin { op: p.op },
        InitError::InvalidConfiguration(c) => classify_cfg(c),
    }
}
pub fn classify_init_norst<E: Classify>(e: &InitError<E, core::convert::Infallible>) -> ErrClass {
    match e {
        InitError::Interface(e) => ErrClass::InitInterface(Box::new(e.classify())),
        InitError::ResetPin(_) => unreachable!(),
        InitError::InvalidConfiguration(c) => classify_cfg(c),
    }
}
fn classify_cfg(c: &ConfigurationError) -> ErrClass {
    match c {
        ConfigurationError::UnsupportedInterface => ErrClass::UnsupportedInterface,
        ConfigurationError::InvalidDisplaySize => ErrClass::InvalidDisplaySize,
        ConfigurationError::InvalidDisplayOffset => ErrClass::InvalidDisplayOffset,
        _ => ErrClass::OtherConfig,
    }
}

// ------------------------------------------------------------------------------------------------
// transports

pub type Bus8 = Generic8BitBus<VPin, VPin, VPin, VPin, VPin, VPin, VPin, VPin>;
pub type Bus16 = Generic16BitBus<
    VPin, VPin, VPin, VPin, VPin, VPin, VPin, VPin, VPin, VPin, VPin, VPin, VPin, VPin, VPin, VPin,
>;
pub type Par8 = ParallelInterface<Bus8, VPin, VPin>;
pub type Par16 = ParallelInterface<Bus16, VPin, VPin>;
pub type Spi = SpiInterface<'static, VSpi, VPin>;

pub fn mk_bus8(bd: &Bd) -> Bus8 {
    Generic8BitBus::new((
        VPin::new(bd, 0),
        VPin::new(bd, 1),
        VPin::new(bd, 2),
        VPin::new(bd, 3),
        VPin::new(bd, 4),
        VPin::new(bd, 5),
        VPin::new(bd, 6),
        VPin::new(bd, 7),
    ))
}
pub fn mk_bus16(bd: &Bd) -> Bus16 {
    Generic16BitBus::new((
        VPin::new(bd, 0),
        VPin::new(bd, 1),
        VPin::new(bd, 2),
        VPin::new(bd, 3),
        VPin::new(bd, 4),
        VPin::new(bd, 5),
        VPin::new(bd, 6),
        VPin::new(bd, 7),
        VPin::new(bd, 8),
        VPin::new(bd, 9),
        VPin::new(bd, 10),
        VPin::new(bd, 11),
        VPin::new(bd, 12),
        VPin::new(bd, 13),
        VPin::new(bd, 14),
        VPin::new(bd, 15),
    ))
}
pub fn mk_par8(bd: &Bd) -> Par8 {
    ParallelInterface::new(mk_bus8(bd), VPin::new(bd, PIN_DC), VPin::new(bd, PIN_WR))
}
pub fn mk_par16(bd: &Bd) -> Par16 {
    ParallelInterface::new(mk_bus16(bd), VPin::new(bd, PIN_DC), VPin::new(bd, PIN_WR))
}

/// Heap buffer handed to `SpiInterface` as `&'static mut [u8]`; freed by `SpiBuf::free` after the
/// interface has been dropped.
pub struct SpiBuf {
    ptr: *mut [u8],
}
impl SpiBuf {
    pub fn new(len: usize, poison: u8) -> (SpiBuf, &'static mut [u8]) {
        let b = vec![poison; len].into_boxed_slice();
        let ptr = Box::into_raw(b);
        // SAFETY: the slice lives until `free`, which the owner calls only after dropping the user
        (SpiBuf { ptr }, unsafe { &mut *ptr })
    }
    /// SAFETY: the reference handed out by `new` must be dead.
    pub unsafe fn free(&mut self) {
        drop(Box::from_raw(self.ptr));
    }
}
pub fn mk_spi(bd: &Bd, len: usize, poison: u8) -> (SpiBuf, Spi) {
    let (b, r) = SpiBuf::new(len, poison);
    (b, SpiInterface::new(VSpi::new(bd), VPin::new(bd, PIN_DC), r))
}

/// One 8-bit-word interface type for all transports (keeps the number of `Display`
/// instantiations for the `Tiny` models small); every call is delegated to the real transport.
pub enum Any8 {
    Rec(RecSerial),
    Spi(Spi),
    Par(Par8),
}
#[derive(Debug)]
pub enum AnyErr {
    Rec(RecFault),
    Spi(SpiError<SpiFault, PinFault>),
    Par(ParallelError<PinFault, PinFault, PinFault>),
}
impl Classify for AnyErr {
    fn classify(&self) -> ErrClass {
        match self {
            AnyErr::Rec(e) => e.classify(),
            AnyErr::Spi(e) => e.classify(),
            AnyErr::Par(e) => e.classify(),
        }
    }
}
impl Interface for Any8 {
    type Word = u8;
    type Error = AnyErr;
    const KIND: InterfaceKind = InterfaceKind::Serial4Line;
    fn send_command(&mut self, command: u8, args: &[u8]) -> Result<(), AnyErr> {
        match self {
            Any8::Rec(i) => i.send_command(command, args).map_err(AnyErr::Rec),
            Any8::Spi(i) => i.send_command(command, args).map_err(AnyErr::Spi),
            Any8::Par(i) => i.send_command(command, args).map_err(AnyErr::Par),
        }
    }
    fn send_pixels<const N: usize>(
        &mut self,
        pixels: impl IntoIterator<Item = [u8; N]>,
    ) -> Result<(), AnyErr> {
        match self {
            Any8::Rec(i) => i.send_pixels(pixels).map_err(AnyErr::Rec),
            Any8::Spi(i) => i.send_pixels(pixels).map_err(AnyErr::Spi),
            Any8::Par(i) => i.send_pixels(pixels).map_err(AnyErr::Par),
        }
    }
    fn send_repeated_pixel<const N: usize>(&mut self, pixel: [u8; N], count: u32) -> Result<(), AnyErr> {
        match self {
            Any8::Rec(i) => i.send_repeated_pixel(pixel, count).map_err(AnyErr::Rec),
            Any8::Spi(i) => i.send_repeated_pixel(pixel, count).map_err(AnyErr::Spi),
            Any8::Par(i) => i.send_repeated_pixel(pixel, count).map_err(AnyErr::Par),
        }
    }
}
pub enum Any16 {
    Rec(RecPar16),
    Par(Par16),
}
impl Interface for Any16 {
    type Word = u16;
    type Error = AnyErr;
    const KIND: InterfaceKind = InterfaceKind::Parallel16Bit;
    fn send_command(&mut self, command: u8, args: &[u8]) -> Result<(), AnyErr> {
        match self {
            Any16::Rec(i) => i.send_command(command, args).map_err(AnyErr::Rec),
            Any16::Par(i) => i.send_command(command, args).map_err(AnyErr::Par),
        }
    }
    fn send_pixels<const N: usize>(
        &mut self,
        pixels: impl IntoIterator<Item = [u16; N]>,
    ) -> Result<(), AnyErr> {
        match self {
            Any16::Rec(i) => i.send_pixels(pixels).map_err(AnyErr::Rec),
            Any16::Par(i) => i.send_pixels(pixels).map_err(AnyErr::Par),
        }
    }
    fn send_repeated_pixel<const N: usize>(&mut self, pixel: [u16; N], count: u32) -> Result<(), AnyErr> {
        match self {
            Any16::Rec(i) => i.send_repeated_pixel(pixel, count).map_err(AnyErr::Rec),
            Any16::Par(i) => i.send_repeated_pixel(pixel, count).map_err(AnyErr::Par),
        }
    }
}

/// access to the transport's hidden state through the verification hooks
pub trait BusPeek {
    /// `Some(last)` for parallel transports (hook `verif_last`), `None` otherwise
    fn bus_last(&self) -> Option<Option<u16>>;
}
impl BusPeek for Any8 {
    fn bus_last(&self) -> Option<Option<u16>> {
        match self {
            Any8::Par(p) => Some(p.verif_bus().verif_last().map(u16::from)),
            _ => None,
        }
    }
}
impl BusPeek for Any16 {
    fn bus_last(&self) -> Option<Option<u16>> {
        match self {
            Any16::Par(p) => Some(p.verif_bus().verif_last()),
            _ => None,
        }
    }
}
impl BusPeek for Par8 {
    fn bus_last(&self) -> Option<Option<u16>> {
        Some(self.verif_bus().verif_last().map(u16::from))
    }
}
impl BusPeek for Par16 {
    fn bus_last(&self) -> Option<Option<u16>> {
        Some(self.verif_bus().verif_last())
    }
}
impl BusPeek for Spi {
    fn bus_last(&self) -> Option<Option<u16>> {
        None
    }
}
macro_rules! nopeek {
    ($($t:ty),*) => {$(impl BusPeek for $t { fn bus_last(&self) -> Option<Option<u16>> { None } })*};
}
nopeek!(RecSerial, RecPar8, RecPar16);

// ------------------------------------------------------------------------------------------------
// the facade

/// Exact private state of a `Display` (hook `verif_state`)
#[derive(Clone, Copy, Debug, PartialEq, Eq, Hash, PartialOrd, Ord, serde::Serialize, serde::Deserialize)]
pub struct DState {
    pub orient: u8,
    pub w: u16,
    pub h: u16,
    pub ox: u16,
    pub oy: u16,
    pub bgr: bool,
    pub invert: bool,
    pub refresh: u8,
    pub madctl: u8,
    pub sleeping: bool,
}

#[derive(Clone, Copy, Debug, PartialEq, Eq, Hash, serde::Serialize, serde::Deserialize)]
pub struct Rect {
    pub x: i32,
    pub y: i32,
    pub w: u32,
    pub h: u32,
}
impl Rect {
    pub fn eg(&self) -> Rectangle {
        Rectangle::new(Point::new(self.x, self.y), Size::new(self.w, self.h))
    }
    /// valid embedded-graphics rectangle with fewer than 2^32 points: embedded-graphics computes
    /// `top_left + size` (then - 1) in i32 for every non-empty rectangle, so that sum must be
    /// representable; rectangles it cannot represent are never generated.
    pub fn valid(&self) -> bool {
        let area = self.w as u64 * self.h as u64;
        if area >= 1 << 32 {
            return false;
        }
        if self.w == 0 || self.h == 0 {
            return true;
        }
        let fits = |p: i32, s: u32| -> bool { s <= i32::MAX as u32 && (p as i64 + s as i64) <= i32::MAX as i64 };
        fits(self.x, self.w) && fits(self.y, self.h)
    }
}

pub type Res = Result<(), ErrClass>;

pub trait Dut {
    fn set_pixel(&mut self, x: u16, y: u16, c: u32) -> Res;
    fn set_pixels(&mut self, sx: u16, sy: u16, ex: u16, ey: u16, colors: &mut dyn Iterator<Item = u32>) -> Res;
    fn draw_iter(&mut self, px: &mut dyn Iterator<Item = (i32, i32, u32)>) -> Res;
    fn fill_contiguous(&mut self, r: Rect, colors: &mut dyn Iterator<Item = u32>) -> Res;
    fn fill_solid(&mut self, r: Rect, c: u32) -> Res;
    fn clear(&mut self, c: u32) -> Res;
    fn set_orientation(&mut self, o: u8) -> Res;
    fn scroll_region(&mut self, top: u16, bottom: u16) -> Res;
    fn scroll_offset(&mut self, o: u16) -> Res;
    /// 0 off, 1 vertical, 2 horizontal+vertical
    fn tearing(&mut self, t: u8) -> Res;
    fn sleep(&mut self, d: &mut VDelay) -> Res;
    fn wake(&mut self, d: &mut VDelay) -> Res;
    fn test_image(&mut self) -> Res;
    fn is_sleeping(&self) -> bool;
    fn orientation(&self) -> u8;
    fn size(&self) -> (u32, u32);
    fn bbox(&self) -> (i32, i32, u32, u32);
    fn state(&self) -> DState;
    fn c666(&self) -> bool;
    fn fb(&self) -> (u16, u16);
}

impl<DI, M, RST> Dut for Display<DI, M, RST>
where
    DI: Interface + BusPeek,
    DI::Error: Classify,
    M: Model,
    M::ColorFormat: InterfacePixelFormat<DI::Word> + Col,
    RST: embedded_hal::digital::OutputPin,
{
    fn set_pixel(&mut self, x: u16, y: u16, c: u32) -> Res {
        Display::set_pixel(self, x, y, M::ColorFormat::from_idx(c)).map_err(|e| e.classify())
    }
    fn set_pixels(&mut self, sx: u16, sy: u16, ex: u16, ey: u16, colors: &mut dyn Iterator<Item = u32>) -> Res {
        Display::set_pixels(self, sx, sy, ex, ey, MapCol::<M::ColorFormat>(colors, PhantomData)).map_err(|e| e.classify())
    }
    fn draw_iter(&mut self, px: &mut dyn Iterator<Item = (i32, i32, u32)>) -> Res {
        DrawTarget::draw_iter(self, px.map(|(x, y, c)| Pixel(Point::new(x, y), M::ColorFormat::from_idx(c))))
            .map_err(|e| e.classify())
    }
    fn fill_contiguous(&mut self, r: Rect, colors: &mut dyn Iterator<Item = u32>) -> Res {
        DrawTarget::fill_contiguous(self, &r.eg(), MapCol::<M::ColorFormat>(colors, PhantomData)).map_err(|e| e.classify())
    }
    fn fill_solid(&mut self, r: Rect, c: u32) -> Res {
        DrawTarget::fill_solid(self, &r.eg(), M::ColorFormat::from_idx(c)).map_err(|e| e.classify())
    }
    fn clear(&mut self, c: u32) -> Res {
        DrawTarget::clear(self, M::ColorFormat::from_idx(c)).map_err(|e| e.classify())
    }
    fn set_orientation(&mut self, o: u8) -> Res {
        Display::set_orientation(self, orient_of(o)).map_err(|e| e.classify())
    }
    fn scroll_region(&mut self, top: u16, bottom: u16) -> Res {
        Display::set_vertical_scroll_region(self, top, bottom).map_err(|e| e.classify())
    }
    fn scroll_offset(&mut self, o: u16) -> Res {
        Display::set_vertical_scroll_offset(self, o).map_err(|e| e.classify())
    }
    fn tearing(&mut self, t: u8) -> Res {
        let te = match t {
            0 => TearingEffect::Off,
            1 => TearingEffect::Vertical,
            _ => TearingEffect::HorizontalAndVertical,
        };
        Display::set_tearing_effect(self, te).map_err(|e| e.classify())
    }
    fn sleep(&mut self, d: &mut VDelay) -> Res {
        Display::sleep(self, d).map_err(|e| e.classify())
    }
    fn wake(&mut self, d: &mut VDelay) -> Res {
        Display::wake(self, d).map_err(|e| e.classify())
    }
    fn test_image(&mut self) -> Res {
        use embedded_graphics_core::Drawable;
        mipidsi::TestImage::<M::ColorFormat>::new().draw(self).map_err(|e| e.classify())
    }
    fn is_sleeping(&self) -> bool {
        Display::is_sleeping(self)
    }
    fn orientation(&self) -> u8 {
        orient_idx(Display::orientation(self))
    }
    fn size(&self) -> (u32, u32) {
        let s = OriginDimensions::size(self);
        (s.width, s.height)
    }
    fn bbox(&self) -> (i32, i32, u32, u32) {
        let b = self.bounding_box();
        (b.top_left.x, b.top_left.y, b.size.width, b.size.height)
    }
    fn state(&self) -> DState {
        let (o, m, s) = self.verif_state();
        DState {
            orient: orient_idx(o.orientation),
            w: o.display_size.0,
            h: o.display_size.1,
            ox: o.display_offset.0,
            oy: o.display_offset.1,
            bgr: o.color_order == ColorOrder::Bgr,
            invert: o.invert_colors == ColorInversion::Inverted,
            refresh: refresh_idx(o.refresh_order),
            madctl: madctl_byte(m),
            sleeping: s,
        }
    }
    fn c666(&self) -> bool {
        M::ColorFormat::BITS666
    }
    fn fb(&self) -> (u16, u16) {
        M::FRAMEBUFFER_SIZE
    }
}

/// A display together with the SPI staging buffer it borrows (if any).
pub struct Owned {
    dut: Option<Box<dyn Dut>>,
    buf: Option<SpiBuf>,
}
impl Owned {
    pub fn new(dut: Box<dyn Dut>, buf: Option<SpiBuf>) -> Owned {
        Owned { dut: Some(dut), buf }
    }
}
impl std::ops::Deref for Owned {
    type Target = dyn Dut;
    fn deref(&self) -> &(dyn Dut + 'static) {
        self.dut.as_deref().unwrap()
    }
}
impl std::ops::DerefMut for Owned {
    fn deref_mut(&mut self) -> &mut (dyn Dut + 'static) {
        self.dut.as_deref_mut().unwrap()
    }
}
impl Drop for Owned {
    fn drop(&mut self) {
        self.dut = None;
        if let Some(b) = self.buf.as_mut() {
            // SAFETY: the display (and with it the SpiInterface borrowing the buffer) is gone
            unsafe { b.free() }
        }
    }
}

// ------------------------------------------------------------------------------------------------
// configuration and construction

#[derive(Clone, Copy, Debug, PartialEq, Eq, Hash, PartialOrd, Ord, serde::Serialize, serde::Deserialize)]
pub enum ModelId {
    /// external const-generic model
    Tiny { fw: u16, fh: u16, c666: bool },
    /// index into `BUILTINS`
    Builtin(u8),
    /// `Fixed43`: 4x3 external model that always programs and returns MADCTL 0x00
    Fixed43,
}

#[derive(Clone, Copy, Debug, PartialEq, Eq, Hash, PartialOrd, Ord, serde::Serialize, serde::Deserialize)]
pub enum Transport {
    RecSerial,
    RecPar8,
    RecPar16,
    Spi { len: u16 },
    Par8,
    Par16,
}
impl Transport {
    pub fn bus16(&self) -> bool {
        matches!(self, Transport::RecPar16 | Transport::Par16)
    }
    pub fn kind_idx(&self) -> usize {
        match self {
            Transport::RecSerial | Transport::Spi { .. } => 0,
            Transport::RecPar8 | Transport::Par8 => 1,
            Transport::RecPar16 | Transport::Par16 => 2,
        }
    }
    pub fn is_real(&self) -> bool {
        matches!(self, Transport::Spi { .. } | Transport::Par8 | Transport::Par16)
    }
}

#[derive(Clone, Copy, Debug, PartialEq, Eq, Hash, PartialOrd, Ord, serde::Serialize, serde::Deserialize)]
pub struct Cfg {
    pub model: ModelId,
    pub tr: Transport,
    /// None: keep the builder default (full framebuffer)
    pub win: Option<(u16, u16, u16, u16)>,
    pub orient: u8,
    pub bgr: bool,
    pub invert: bool,
    pub refresh: u8,
    pub rst: bool,
    /// bit 0: builder options are set *before* `.reset_pin()` (call order); bit 1: the interface is
    /// handed to the builder as `&mut DI` (light path only); bit 2: data pins start high (0xFFFF)
    #[serde(default)]
    pub flags: u8,
}
pub const F_OPTS_FIRST: u8 = 1;
pub const F_BORROWED: u8 = 2;
pub const F_DATA_HIGH: u8 = 4;
/// with F_BORROWED: after the (possibly failing) first init, clear all faults and initialise again through the same interface
pub const F_RETRY: u8 = 8;
/// the reset pin is a zero-sized type (light path, not combined with F_BORROWED)
pub const F_ZST_RST: u8 = 16;
impl Cfg {
    pub fn tiny(fw: u16, fh: u16, c666: bool, tr: Transport, win: (u16, u16, u16, u16), orient: u8) -> Cfg {
        Cfg {
            model: ModelId::Tiny { fw, fh, c666 },
            tr,
            win: Some(win),
            orient,
            bgr: false,
            invert: false,
            refresh: 0,
            rst: false,
            flags: 0,
        }
    }
    pub fn fb(&self) -> (u16, u16) {
        match self.model {
            ModelId::Tiny { fw, fh, .. } => (fw, fh),
            ModelId::Builtin(i) => BUILTINS[i as usize].fb,
            ModelId::Fixed43 => (4, 3),
        }
    }
    pub fn c666(&self) -> bool {
        match self.model {
            ModelId::Tiny { c666, .. } => c666,
            ModelId::Builtin(i) => BUILTINS[i as usize].c666,
            ModelId::Fixed43 => false,
        }
    }
    pub fn window(&self) -> (u16, u16, u16, u16) {
        let (fw, fh) = self.fb();
        self.win.unwrap_or((fw, fh, 0, 0))
    }
    pub fn geo(&self) -> crate::spec::Geo {
        let (fw, fh) = self.fb();
        let (w, h, ox, oy) = self.window();
        crate::spec::Geo { fw, fh, w, h, ox, oy, orient: self.orient }
    }
}

pub struct BuiltinInfo {
    pub name: &'static str,
    pub fb: (u16, u16),
    pub c666: bool,
    /// golden support matrix of the pinned tree: [serial, parallel8, parallel16]
    pub supports: [bool; 3],
    pub vendor_pages: bool,
}

pub const BUILTINS: &[BuiltinInfo] = &[
    BuiltinInfo { name: "GC9107", fb: (128, 160), c666: false, supports: [true, true, false], vendor_pages: false },
    BuiltinInfo { name: "GC9A01", fb: (240, 240), c666: false, supports: [true, true, true], vendor_pages: false },
    BuiltinInfo { name: "ILI9341Rgb565", fb: (240, 320), c666: false, supports: [true, true, true], vendor_pages: false },
    BuiltinInfo { name: "ILI9341Rgb666", fb: (240, 320), c666: true, supports: [true, true, true], vendor_pages: false },
    BuiltinInfo { name: "ILI9342CRgb565", fb: (320, 240), c666: false, supports: [true, true, true], vendor_pages: false },
    BuiltinInfo { name: "ILI9342CRgb666", fb: (320, 240), c666: true, supports: [true, true, true], vendor_pages: false },
    BuiltinInfo { name: "ILI9486Rgb565", fb: (320, 480), c666: false, supports: [false, true, true], vendor_pages: false },
    BuiltinInfo { name: "ILI9486Rgb666", fb: (320, 480), c666: true, supports: [true, true, true], vendor_pages: false },
    BuiltinInfo { name: "ILI9488Rgb565", fb: (320, 480), c666: false, supports: [true, true, true], vendor_pages: false },
    BuiltinInfo { name: "ILI9488Rgb666", fb: (320, 480), c666: true, supports: [true, true, true], vendor_pages: false },
    BuiltinInfo { name: "RM67162", fb: (240, 536), c666: false, supports: [true, true, false], vendor_pages: true },
    BuiltinInfo { name: "ST7735s", fb: (132, 162), c666: false, supports: [true, true, true], vendor_pages: false },
    BuiltinInfo { name: "ST7789", fb: (240, 320), c666: false, supports: [true, true, true], vendor_pages: false },
    BuiltinInfo { name: "ST7796", fb: (320, 480), c666: false, supports: [true, true, true], vendor_pages: false },
];

pub type BuildRes = Result<Owned, ErrClass>;

fn apply_opts<DI, M, RST>(b: Builder<DI, M, RST>, cfg: &Cfg) -> Builder<DI, M, RST>
where
    DI: Interface,
    M: Model,
    M::ColorFormat: InterfacePixelFormat<DI::Word>,
    RST: embedded_hal::digital::OutputPin,
{
    let mut b = b
        .orientation(orient_of(cfg.orient))
        .color_order(if cfg.bgr { ColorOrder::Bgr } else { ColorOrder::Rgb })
        .invert_colors(if cfg.invert { ColorInversion::Inverted } else { ColorInversion::Normal })
        .refresh_order(refresh_of(cfg.refresh));
    if let Some((w, h, ox, oy)) = cfg.win {
        b = b.display_size(w, h).display_offset(ox, oy);
    }
    b
}

/// What an initialisation produced, without keeping the display (light path: no facade)
#[derive(Clone, Debug, PartialEq, Eq)]
pub struct InitOut {
    pub res: Result<DState, ErrClass>,
    /// F_RETRY: outcome of the second init on the same (lent) interface, and the event index where it started
    pub retry: Option<(Result<DState, ErrClass>, usize)>,
}

pub enum Fin {
    Dut(BuildRes),
    Init(InitOut),
}

/// FULL_RST: also instantiate the full facade over a display WITH a reset pin (built-in models on the recording
/// transports only, to keep the number of monomorphised facades down)
fn finish<DI, M, F: Fn() -> M, const FULL_RST: bool>(mk_model: F, di: DI, cfg: &Cfg, bd: &Bd, buf: Option<SpiBuf>, light: bool) -> Fin
where
    DI: Interface + BusPeek + 'static,
    DI::Error: Classify,
    M: Model + 'static,
    M::ColorFormat: InterfacePixelFormat<DI::Word> + Col,
{
    let model = mk_model();
    let mut delay = VDelay::new(bd);
    let free = |buf: Option<SpiBuf>| {
        if let Some(mut b) = buf {
            // SAFETY: the builder/display (and the interface borrowing the buffer) is gone
            unsafe { b.free() }
        }
    };
    if light {
        let opts_first = cfg.flags & F_OPTS_FIRST != 0;
        let res = if cfg.flags & F_BORROWED != 0 {
            // the interface is lent to the builder (`impl Interface for &mut T`)
            let mut di = di;
            let r = if cfg.rst {
                let b = if opts_first { apply_opts(Builder::new(model, &mut di), cfg).reset_pin(VPin::new(bd, PIN_RST)) } else { apply_opts(Builder::new(model, &mut di).reset_pin(VPin::new(bd, PIN_RST)), cfg) };
                b.init(&mut delay).map(|d| light_state(&d)).map_err(|e| classify_init(&e))
            } else {
                apply_opts(Builder::new(model, &mut di), cfg).init(&mut delay).map(|d| light_state(&d)).map_err(|e| classify_init_norst(&e))
            };
            if cfg.flags & F_RETRY != 0 {
                let start = {
                    let mut b = bd.borrow_mut();
                    b.faults.clear();
                    b.evs.len()
                };
                let model2 = mk_model();
                let r2 = if cfg.rst {
                    apply_opts(Builder::new(model2, &mut di).reset_pin(VPin::new(bd, PIN_RST)), cfg).init(&mut delay).map(|d| light_state(&d)).map_err(|e| classify_init(&e))
                } else {
                    apply_opts(Builder::new(model2, &mut di), cfg).init(&mut delay).map(|d| light_state(&d)).map_err(|e| classify_init_norst(&e))
                };
                drop(di);
                free(buf);
                return Fin::Init(InitOut { res: r, retry: Some((r2, start)) });
            }
            drop(di);
            r
        } else if cfg.rst && cfg.flags & F_ZST_RST != 0 {
            let b = if opts_first { apply_opts(Builder::new(model, di), cfg).reset_pin(ZRst::attach(bd)) } else { apply_opts(Builder::new(model, di).reset_pin(ZRst::attach(bd)), cfg) };
            b.init(&mut delay).map(|d| light_state(&d)).map_err(|e| classify_init(&e))
        } else if cfg.rst {
            let b = if opts_first { apply_opts(Builder::new(model, di), cfg).reset_pin(VPin::new(bd, PIN_RST)) } else { apply_opts(Builder::new(model, di).reset_pin(VPin::new(bd, PIN_RST)), cfg) };
            b.init(&mut delay).map(|d| light_state(&d)).map_err(|e| classify_init(&e))
        } else {
            apply_opts(Builder::new(model, di), cfg)
                .init(&mut delay)
                .map(|d| light_state(&d))
                .map_err(|e| classify_init_norst(&e))
        };
        free(buf);
        return Fin::Init(InitOut { res, retry: None });
    }
    let r: Result<Box<dyn Dut>, ErrClass> = if cfg.rst {
        if FULL_RST {
            let b = if cfg.flags & F_OPTS_FIRST != 0 { apply_opts(Builder::new(model, di), cfg).reset_pin(VPin::new(bd, PIN_RST)) } else { apply_opts(Builder::new(model, di).reset_pin(VPin::new(bd, PIN_RST)), cfg) };
            b.init(&mut delay).map(|d| Box::new(d) as Box<dyn Dut>).map_err(|e| classify_init(&e))
        } else {
            panic!("the full facade with a reset pin is only instantiated for built-in models on recording transports; use init_only");
        }
    } else {
        apply_opts(Builder::new(model, di), cfg).init(&mut delay).map(|d| Box::new(d) as Box<dyn Dut>).map_err(|e| classify_init_norst(&e))
    };
    Fin::Dut(match r {
        Ok(d) => Ok(Owned::new(d, buf)),
        Err(e) => {
            free(buf);
            Err(e)
        }
    })
}

fn light_state<DI, M, RST>(d: &Display<DI, M, RST>) -> DState
where
    DI: Interface,
    M: Model,
    M::ColorFormat: InterfacePixelFormat<DI::Word>,
    RST: embedded_hal::digital::OutputPin,
{
    let (o, m, s) = d.verif_state();
    DState {
        orient: orient_idx(o.orientation),
        w: o.display_size.0,
        h: o.display_size.1,
        ox: o.display_offset.0,
        oy: o.display_offset.1,
        bgr: o.color_order == ColorOrder::Bgr,
        invert: o.invert_colors == ColorInversion::Inverted,
        refresh: refresh_idx(o.refresh_order),
        madctl: madctl_byte(m),
        sleeping: s,
    }
}

/// poison value the SPI staging buffer is pre-filled with
pub const SPI_POISON: u8 = 0xEE;

fn build_tiny<const FW: u16, const FH: u16>(cfg: &Cfg, bd: &Bd, c666: bool, light: bool) -> Fin {
    match (cfg.tr, c666) {
        (Transport::RecSerial | Transport::RecPar8, false) => {
            finish::<_, _, _, false>(|| Tiny::<FW, FH, Rgb565>(PhantomData), Any8::Rec(RecSerial::new(bd)), cfg, bd, None, light)
        }
        (Transport::RecSerial | Transport::RecPar8, true) => {
            finish::<_, _, _, false>(|| Tiny::<FW, FH, Rgb666>(PhantomData), Any8::Rec(RecSerial::new(bd)), cfg, bd, None, light)
        }
        (Transport::Spi { len }, false) => {
            let (b, s) = mk_spi(bd, len as usize, SPI_POISON);
            finish::<_, _, _, false>(|| Tiny::<FW, FH, Rgb565>(PhantomData), Any8::Spi(s), cfg, bd, Some(b), light)
        }
        (Transport::Spi { len }, true) => {
            let (b, s) = mk_spi(bd, len as usize, SPI_POISON);
            finish::<_, _, _, false>(|| Tiny::<FW, FH, Rgb666>(PhantomData), Any8::Spi(s), cfg, bd, Some(b), light)
        }
        (Transport::Par8, false) => finish::<_, _, _, false>(|| Tiny::<FW, FH, Rgb565>(PhantomData), Any8::Par(mk_par8(bd)), cfg, bd, None, light),
        (Transport::Par8, true) => finish::<_, _, _, false>(|| Tiny::<FW, FH, Rgb666>(PhantomData), Any8::Par(mk_par8(bd)), cfg, bd, None, light),
        (Transport::RecPar16, false) => {
            finish::<_, _, _, false>(|| Tiny::<FW, FH, Rgb565>(PhantomData), Any16::Rec(RecPar16::new(bd)), cfg, bd, None, light)
        }
        (Transport::Par16, false) => finish::<_, _, _, false>(|| Tiny::<FW, FH, Rgb565>(PhantomData), Any16::Par(mk_par16(bd)), cfg, bd, None, light),
        (Transport::RecPar16 | Transport::Par16, true) => panic!("Rgb666 is not available on a 16-bit bus"),
    }
}

/// Light path for models that are only ever initialised (C09): 8-bit recording interface only.
fn init_tiny<const FW: u16, const FH: u16>(cfg: &Cfg, bd: &Bd) -> Fin {
    finish::<_, _, _, false>(|| Tiny::<FW, FH, Rgb565>(PhantomData), RecSerial::new(bd), cfg, bd, None, true)
}

macro_rules! tiny_dispatch {
    ($cfg:expr, $bd:expr, $fw:expr, $fh:expr, $c666:expr, $light:expr; $(($w:literal, $h:literal)),* $(,)?) => {
        match ($fw, $fh) {
            $(($w, $h) => build_tiny::<$w, $h>($cfg, $bd, $c666, $light),)*
            _ => tiny_init_dispatch!($cfg, $bd, $fw, $fh, $light;
                (32767, 32768), (32768, 32767), (65534, 65535), (240, 320), (320, 480), (240, 536), (1, 240), (240, 1), (240, 240), (240, 65535), (65535, 240), (65535, 32768), (128, 160)),
        }
    };
}
macro_rules! tiny_init_dispatch {
    ($cfg:expr, $bd:expr, $fw:expr, $fh:expr, $light:expr; $(($w:literal, $h:literal)),* $(,)?) => {
        match ($fw, $fh) {
            $(($w, $h) if $light && matches!($cfg.tr, Transport::RecSerial) => init_tiny::<$w, $h>($cfg, $bd),)*
            _ => panic!("Tiny<{},{}> is not instantiated for this use; add it to dut.rs", $fw, $fh),
        }
    };
}

macro_rules! builtin_build {
    ($model:expr, $cfg:expr, $bd:expr, $light:expr) => {
        match $cfg.tr {
            Transport::RecSerial => finish::<_, _, _, true>(|| $model, RecSerial::new($bd), $cfg, $bd, None, $light),
            Transport::RecPar8 => finish::<_, _, _, true>(|| $model, RecPar8::new($bd), $cfg, $bd, None, $light),
            Transport::Spi { len } => {
                let (b, s) = mk_spi($bd, len as usize, SPI_POISON);
                finish::<_, _, _, false>(|| $model, s, $cfg, $bd, Some(b), $light)
            }
            Transport::Par8 => finish::<_, _, _, false>(|| $model, mk_par8($bd), $cfg, $bd, None, $light),
            _ => unreachable!(),
        }
    };
}
macro_rules! builtin_build16 {
    ($model:expr, $cfg:expr, $bd:expr, $light:expr) => {
        match $cfg.tr {
            Transport::RecPar16 => finish::<_, _, _, false>(|| $model, RecPar16::new($bd), $cfg, $bd, None, $light),
            Transport::Par16 => finish::<_, _, _, false>(|| $model, mk_par16($bd), $cfg, $bd, None, $light),
            _ => unreachable!(),
        }
    };
}

/// Can this model/transport pairing be expressed in the type system at all?
/// (Rgb666 has no 16-bit-word pixel format, so those pairings do not compile.)
pub fn type_checks(cfg: &Cfg) -> bool {
    !(cfg.c666() && cfg.tr.bus16())
}

/// Build a display with the full facade (no reset pin).
pub fn build(cfg: &Cfg, bd: &Bd) -> BuildRes {
    match build_any(cfg, bd, false) {
        Fin::Dut(r) => r,
        Fin::Init(_) => unreachable!(),
    }
}
/// Run `Builder::init` only (with or without reset pin) and report the outcome.
pub fn init_only(cfg: &Cfg, bd: &Bd) -> InitOut {
    match build_any(cfg, bd, true) {
        Fin::Init(r) => r,
        Fin::Dut(_) => unreachable!(),
    }
}

fn build_any(cfg: &Cfg, bd: &Bd, light: bool) -> Fin {
    use mipidsi::models::*;
    match cfg.model {
        ModelId::Tiny { fw, fh, c666 } => tiny_dispatch!(cfg, bd, fw, fh, c666, light;
            (1, 1), (1, 3), (2, 2), (3, 2), (2, 3), (3, 3), (4, 2), (4, 3), (3, 4), (3, 5), (5, 3), (4, 4), (5, 4), (4, 5), (5, 5), (8, 6),
            (40, 35), (130, 4), (3, 104), (64, 64),
            (65535, 65535), (65535, 1), (1, 65535), (2, 160), (2, 162), (2, 240), (2, 536), (1, 480)),
        ModelId::Fixed43 => match cfg.tr {
            Transport::RecSerial | Transport::RecPar8 => finish::<_, _, _, false>(|| Fixed43, Any8::Rec(RecSerial::new(bd)), cfg, bd, None, light),
            Transport::Par8 => finish::<_, _, _, false>(|| Fixed43, Any8::Par(mk_par8(bd)), cfg, bd, None, light),
            Transport::Spi { len } => {
                let (b, s) = mk_spi(bd, len as usize, SPI_POISON);
                finish::<_, _, _, false>(|| Fixed43, Any8::Spi(s), cfg, bd, Some(b), light)
            }
            _ => panic!("Fixed43 is only instantiated on 8-bit-word transports"),
        },
        ModelId::Builtin(i) => {
            if cfg.tr.bus16() {
                match i {
                    0 => builtin_build16!(GC9107, cfg, bd, light),
                    1 => builtin_build16!(GC9A01, cfg, bd, light),
                    2 => builtin_build16!(ILI9341Rgb565, cfg, bd, light),
                    4 => builtin_build16!(ILI9342CRgb565, cfg, bd, light),
                    6 => builtin_build16!(ILI9486Rgb565, cfg, bd, light),
                    8 => builtin_build16!(ILI9488Rgb565, cfg, bd, light),
                    10 => builtin_build16!(RM67162, cfg, bd, light),
                    11 => builtin_build16!(ST7735s, cfg, bd, light),
                    12 => builtin_build16!(ST7789, cfg, bd, light),
                    13 => builtin_build16!(ST7796, cfg, bd, light),
                    _ => panic!("model {} does not type-check on a 16-bit bus", BUILTINS[i as usize].name),
                }
            } else {
                match i {
                    0 => builtin_build!(GC9107, cfg, bd, light),
                    1 => builtin_build!(GC9A01, cfg, bd, light),
                    2 => builtin_build!(ILI9341Rgb565, cfg, bd, light),
                    3 => builtin_build!(ILI9341Rgb666, cfg, bd, light),
                    4 => builtin_build!(ILI9342CRgb565, cfg, bd, light),
                    5 => builtin_build!(ILI9342CRgb666, cfg, bd, light),
                    6 => builtin_build!(ILI9486Rgb565, cfg, bd, light),
                    7 => builtin_build!(ILI9486Rgb666, cfg, bd, light),
                    8 => builtin_build!(ILI9488Rgb565, cfg, bd, light),
                    9 => builtin_build!(ILI9488Rgb666, cfg, bd, light),
                    10 => builtin_build!(RM67162, cfg, bd, light),
                    11 => builtin_build!(ST7735s, cfg, bd, light),
                    12 => builtin_build!(ST7789, cfg, bd, light),
                    13 => builtin_build!(ST7796, cfg, bd, light),
                    _ => panic!("unknown builtin"),
                }
            }
        }
    }
}
