//! Reference driver specification: the user's-eye view (DESIGN.md 2.4).
//! Shares no code or formula with the driver.
#![allow(dead_code)]

use crate::ctl::Mem;

/// orientation index 0..8: rotation = (o & 3) * 90 degrees clockwise, mirrored = o >= 4
#[derive(Clone, Copy, Debug, PartialEq, Eq, Hash, PartialOrd, Ord, serde::Serialize, serde::Deserialize)]
pub struct Geo {
    pub fw: u16,
    pub fh: u16,
    pub w: u16,
    pub h: u16,
    pub ox: u16,
    pub oy: u16,
    pub orient: u8,
}

impl Geo {
    pub fn rot(&self) -> u8 {
        self.orient & 3
    }
    pub fn mirrored(&self) -> bool {
        self.orient >= 4
    }
    /// logical size seen by the user
    pub fn lsize(&self) -> (u32, u32) {
        if self.rot() % 2 == 0 {
            (self.w as u32, self.h as u32)
        } else {
            (self.h as u32, self.w as u32)
        }
    }
    pub fn in_bounds(&self, x: i64, y: i64) -> bool {
        let (lw, lh) = self.lsize();
        x >= 0 && y >= 0 && x < lw as i64 && y < lh as i64
    }
    /// "rotate the logical image clockwise, mirror it left-right if mirrored, shift by the offset"
    pub fn cell(&self, x: u32, y: u32) -> (u16, u16) {
        let (w, h) = (self.w as u32, self.h as u32);
        let (mut px, py) = match self.rot() {
            0 => (x, y),
            1 => (w - 1 - y, x),
            2 => (w - 1 - x, h - 1 - y),
            _ => (y, h - 1 - x),
        };
        if self.mirrored() {
            px = w - 1 - px;
        }
        ((px + self.ox as u32) as u16, (py + self.oy as u32) as u16)
    }
    /// is the physical cell inside the panel window?
    pub fn in_window(&self, x: u16, y: u16) -> bool {
        x >= self.ox
            && (x as u32) < self.ox as u32 + self.w as u32
            && y >= self.oy
            && (y as u32) < self.oy as u32 + self.h as u32
    }
}

/// MIPI-DCS address-mode byte from its three inputs (table in the DCS specification):
/// B7 MY, B6 MX, B5 MV, B4 ML (bottom-to-top refresh), B3 BGR, B2 MH (right-to-left refresh).
/// The MY/MX/MV values per orientation are derived from the geometric sentence of C01 applied to
/// the controller's pointer mapping, not from the driver's table:
pub fn madctl_spec(bgr: bool, orient: u8, refresh: u8) -> u8 {
    // For each orientation find the unique (MY,MX,MV) for which the controller mapping of a
    // full-window raster equals Geo::cell on an asymmetric 3x2 panel.
    let geo = Geo { fw: 3, fh: 2, w: 3, h: 2, ox: 0, oy: 0, orient };
    let (lw, lh) = geo.lsize();
    let mut found = None;
    for bits in 0..8u8 {
        let (my, mx, mv) = (bits & 4 != 0, bits & 2 != 0, bits & 1 != 0);
        let mut ok = true;
        'outer: for y in 0..lh {
            for x in 0..lw {
                // controller: pointer (c,r) = (x,y) for a window starting at 0
                let (mut cx, mut cy) = if mv { (y, x) } else { (x, y) };
                if cx >= 3 || cy >= 2 {
                    ok = false;
                    break 'outer;
                }
                if mx {
                    cx = 2 - cx;
                }
                if my {
                    cy = 1 - cy;
                }
                if (cx as u16, cy as u16) != geo.cell(x, y) {
                    ok = false;
                    break 'outer;
                }
            }
        }
        if ok {
            assert!(found.is_none(), "ambiguous MADCTL derivation");
            found = Some((my, mx, mv));
        }
    }
    let (my, mx, mv) = found.expect("no MADCTL for orientation");
    let mut b = 0u8;
    if my {
        b |= 0x80;
    }
    if mx {
        b |= 0x40;
    }
    if mv {
        b |= 0x20;
    }
    // refresh: bit0 = vertical bottom-to-top, bit1 = horizontal right-to-left
    if refresh & 1 != 0 {
        b |= 0x10;
    }
    if bgr {
        b |= 0x08;
    }
    if refresh & 2 != 0 {
        b |= 0x04;
    }
    b
}

/// The logical canvas: last write wins, out-of-bounds points dropped.
pub struct Canvas {
    pub geo: Geo,
    pub mem: Mem,
    /// number of points dropped because they were outside the bounding box
    pub dropped: u64,
    pub drawn: u64,
}

impl Canvas {
    pub fn new(geo: Geo) -> Canvas {
        Canvas { geo, mem: Mem::new(geo.fw, geo.fh), dropped: 0, drawn: 0 }
    }
    pub fn with_log(geo: Geo) -> Canvas {
        let mut c = Canvas::new(geo);
        c.mem.keep_log = true;
        c
    }
    #[inline]
    pub fn point(&mut self, x: i64, y: i64, v: u32) {
        if self.geo.in_bounds(x, y) {
            let (cx, cy) = self.geo.cell(x as u32, y as u32);
            self.mem.set(cx, cy, v);
            self.drawn += 1;
        } else {
            self.dropped += 1;
        }
    }
    /// rectangle fill with one value (embedded-graphics rectangle: top_left + size)
    pub fn fill_solid(&mut self, x: i64, y: i64, w: u64, h: u64, v: u32) {
        let (lw, lh) = self.geo.lsize();
        let x0 = x.max(0);
        let y0 = y.max(0);
        let x1 = (x + w as i64 - 1).min(lw as i64 - 1);
        let y1 = (y + h as i64 - 1).min(lh as i64 - 1);
        if w == 0 || h == 0 || x0 > x1 || y0 > y1 {
            return;
        }
        if self.mem.is_dense() || ((x1 - x0 + 1) * (y1 - y0 + 1)) <= 4096 {
            for yy in y0..=y1 {
                for xx in x0..=x1 {
                    self.point(xx, yy, v);
                }
            }
        } else {
            let a = self.geo.cell(x0 as u32, y0 as u32);
            let b = self.geo.cell(x1 as u32, y1 as u32);
            self.mem.fill_rect(a.0.min(b.0), a.1.min(b.1), a.0.max(b.0), a.1.max(b.1), v);
        }
    }
    /// k-th colour to the k-th point of the requested rectangle (row-major); `len` colours
    /// available (None = unbounded); colour k is `col(k)`.
    pub fn fill_contiguous(
        &mut self,
        x: i64,
        y: i64,
        w: u64,
        h: u64,
        len: Option<u64>,
        col: &dyn Fn(u64) -> u32,
    ) {
        let (lw, lh) = self.geo.lsize();
        if w == 0 || h == 0 {
            return;
        }
        let x0 = x.max(0);
        let y0 = y.max(0);
        let x1 = (x + w as i64 - 1).min(lw as i64 - 1);
        let y1 = (y + h as i64 - 1).min(lh as i64 - 1);
        if x0 > x1 || y0 > y1 {
            return;
        }
        for yy in y0..=y1 {
            for xx in x0..=x1 {
                let k = (yy - y) as u64 * w + (xx - x) as u64;
                if len.map(|l| k < l).unwrap_or(true) {
                    self.point(xx, yy, col(k));
                }
            }
        }
    }
}

/// init acceptance predicate in u64 (C09)
#[derive(Clone, Copy, Debug, PartialEq, Eq, Hash)]
pub enum InitVerdict {
    Ok,
    InvalidSize,
    InvalidOffset,
}
pub fn init_spec(fw: u16, fh: u16, w: u16, h: u16, ox: u16, oy: u16) -> InitVerdict {
    let (fw, fh, w, h, ox, oy) = (fw as u64, fh as u64, w as u64, h as u64, ox as u64, oy as u64);
    if w == 0 || h == 0 || w > fw || h > fh {
        InitVerdict::InvalidSize
    } else if w + ox > fw || h + oy > fh {
        InitVerdict::InvalidOffset
    } else {
        InitVerdict::Ok
    }
}
