//! Transport-level harness: drives the real `SpiInterface` / `ParallelInterface` through the
//! `Interface` trait with a serialisable call alphabet.
#![allow(dead_code)]

use mipidsi::interface::Interface;
use serde::{Deserialize, Serialize};

use crate::dut::*;
use crate::env::*;
use crate::rig::{guarded, Outcome};

pub trait Wd: Copy + Eq + 'static {
    fn from16(v: u16) -> Self;
    fn to16(self) -> u16;
}
impl Wd for u8 {
    fn from16(v: u16) -> u8 {
        v as u8
    }
    fn to16(self) -> u16 {
        self as u16
    }
}
impl Wd for u16 {
    fn from16(v: u16) -> u16 {
        v
    }
    fn to16(self) -> u16 {
        self
    }
}

#[derive(Clone, Debug, PartialEq, Eq, Hash, Serialize, Deserialize)]
pub enum TCall {
    Cmd { op: u8, args: Vec<u8> },
    /// `words.len()` must be a multiple of `n`
    Pixels { n: u8, words: Vec<u16> },
    Repeat { pixel: Vec<u16>, count: u32 },
    /// a pixel source that is NOT fused: yields `words`, then `None`, and would yield `after` if polled again
    PixelsUnfused { n: u8, words: Vec<u16>, after: Vec<u16> },
    /// a pixel source whose `size_hint` upper bound is `extra` pixels larger than what it yields
    /// (like `filter` / `take_while` / a clipped fill whose colour stream ends early)
    PixelsLoose { n: u8, words: Vec<u16>, extra: u32 },
}
impl TCall {
    /// the words the device must latch for this call, in order, with the DC level
    pub fn expected(&self) -> Vec<(bool, u16)> {
        match self {
            TCall::Cmd { op, args } => {
                let mut v = vec![(false, *op as u16)];
                v.extend(args.iter().map(|a| (true, *a as u16)));
                v
            }
            TCall::Pixels { words, .. } | TCall::PixelsUnfused { words, .. } | TCall::PixelsLoose { words, .. } => words.iter().map(|w| (true, *w)).collect(),
            TCall::Repeat { pixel, count } => {
                let mut v = Vec::with_capacity(pixel.len() * *count as usize);
                for _ in 0..*count {
                    v.extend(pixel.iter().map(|w| (true, *w)));
                }
                v
            }
        }
    }
    pub fn n_expected(&self) -> u64 {
        match self {
            TCall::Cmd { args, .. } => 1 + args.len() as u64,
            TCall::Pixels { words, .. } | TCall::PixelsUnfused { words, .. } | TCall::PixelsLoose { words, .. } => words.len() as u64,
            TCall::Repeat { pixel, count } => pixel.len() as u64 * *count as u64,
        }
    }
}

pub fn exec_call<I>(i: &mut I, c: &TCall) -> Result<(), I::Error>
where
    I: Interface,
    I::Word: Wd,
{
    fn px<W: Wd, const N: usize>(words: &[u16]) -> impl Iterator<Item = [W; N]> + '_ {
        words.chunks_exact(N).map(|c| {
            let mut a = [W::from16(0); N];
            for (k, w) in c.iter().enumerate() {
                a[k] = W::from16(*w);
            }
            a
        })
    }
    fn one<W: Wd, const N: usize>(words: &[u16]) -> [W; N] {
        let mut a = [W::from16(0); N];
        for (k, w) in words.iter().enumerate() {
            a[k] = W::from16(*w);
        }
        a
    }
    match c {
        TCall::Cmd { op, args } => i.send_command(*op, args),
        TCall::Pixels { n, words } => match n {
            1 => i.send_pixels::<1>(px::<I::Word, 1>(words)),
            2 => i.send_pixels::<2>(px::<I::Word, 2>(words)),
            3 => i.send_pixels::<3>(px::<I::Word, 3>(words)),
            _ => panic!("unsupported pixel width"),
        },
        TCall::PixelsUnfused { n, words, after } => {
            // the stream ends at the first None; a source polled again after that hands out `after`
            // (bounded: at most 64 polls after the end, then it panics with the budget sentinel)
            fn unfused<'a, W: Wd, const N: usize>(words: &'a [u16], after: &'a [u16]) -> impl Iterator<Item = [W; N]> + 'a {
                let mut first = words.chunks_exact(N);
                let mut second = after.chunks_exact(N).cycle();
                let mut ended = false;
                let mut polls_after_end = 0u32;
                std::iter::from_fn(move || {
                    let mk = |c: &[u16]| {
                        let mut a = [W::from16(0); N];
                        for (k, w) in c.iter().enumerate() {
                            a[k] = W::from16(*w);
                        }
                        a
                    };
                    if !ended {
                        match first.next() {
                            Some(c) => Some(mk(c)),
                            None => {
                                ended = true;
                                None
                            }
                        }
                    } else {
                        polls_after_end += 1;
                        if polls_after_end > 64 {
                            std::panic::panic_any(crate::env::BudgetExhausted("pixel source polled more than 64 times after it ended"));
                        }
                        second.next().map(mk)
                    }
                })
            }
            match n {
                1 => i.send_pixels::<1>(unfused::<I::Word, 1>(words, after)),
                2 => i.send_pixels::<2>(unfused::<I::Word, 2>(words, after)),
                3 => i.send_pixels::<3>(unfused::<I::Word, 3>(words, after)),
                _ => panic!("unsupported pixel width"),
            }
        }
        TCall::PixelsLoose { n, words, extra } => {
            // size_hint = (0, Some(k + extra)) but only k pixels come out
            fn loose<'a, W: Wd, const N: usize>(words: &'a [u16], extra: u32) -> impl Iterator<Item = [W; N]> + 'a {
                let k = words.len() / N;
                (0..k + extra as usize).filter(move |i| *i < k).map(move |i| {
                    let mut a = [W::from16(0); N];
                    for (j, w) in words[i * N..i * N + N].iter().enumerate() {
                        a[j] = W::from16(*w);
                    }
                    a
                })
            }
            match n {
                1 => i.send_pixels::<1>(loose::<I::Word, 1>(words, *extra)),
                2 => i.send_pixels::<2>(loose::<I::Word, 2>(words, *extra)),
                3 => i.send_pixels::<3>(loose::<I::Word, 3>(words, *extra)),
                _ => panic!("unsupported pixel width"),
            }
        }
        TCall::Repeat { pixel, count } => match pixel.len() {
            1 => i.send_repeated_pixel::<1>(one::<I::Word, 1>(pixel), *count),
            2 => i.send_repeated_pixel::<2>(one::<I::Word, 2>(pixel), *count),
            3 => i.send_repeated_pixel::<3>(one::<I::Word, 3>(pixel), *count),
            _ => panic!("unsupported pixel width"),
        },
    }
}

/// words latched by the device for the events `evs[from..]`, decoded at pin / SPI level,
/// together with the DC level at the moment of latching
pub struct Latcher {
    pub levels: [bool; NPINS],
    pub pos: usize,
    pub bus16: bool,
}
impl Latcher {
    pub fn new(levels: [bool; NPINS], bus16: bool) -> Latcher {
        Latcher { levels, pos: 0, bus16 }
    }
    pub fn drain(&mut self, b: &Board) -> Vec<(bool, u16)> {
        let mut out = Vec::new();
        let nbits = if self.bus16 { 16 } else { 8 };
        while self.pos < b.evs.len() {
            let ev = b.evs[self.pos];
            self.pos += 1;
            match ev {
                Ev::Pin { pin, high, applied, .. } => {
                    if !applied {
                        continue;
                    }
                    let was = self.levels[pin as usize];
                    self.levels[pin as usize] = high;
                    if pin == PIN_WR && high && !was {
                        let mut w = 0u16;
                        for i in 0..nbits {
                            if self.levels[i] {
                                w |= 1 << i;
                            }
                        }
                        out.push((self.levels[PIN_DC as usize], w));
                    }
                }
                Ev::SpiWrite { dc, ok, off, len, .. } => {
                    if ok {
                        for &byte in &b.bytes[off as usize..(off + len) as usize] {
                            out.push((dc, byte as u16));
                        }
                    }
                }
                _ => {}
            }
        }
        out
    }
}

pub enum RealIface {
    Spi(Spi, SpiBuf),
    Par8(Par8),
    Par16(Par16),
}
/// a transport under test on a fresh board
pub struct TRig {
    pub bd: Bd,
    pub iface: Option<RealIface>,
    pub lat: Latcher,
}
impl TRig {
    pub fn spi(len: usize, poison: u8) -> TRig {
        let levels = Board::default_levels();
        let bd = Board::new(levels);
        let (buf, s) = mk_spi(&bd, len, poison);
        TRig { bd, iface: Some(RealIface::Spi(s, buf)), lat: Latcher::new(levels, false) }
    }
    pub fn par8(levels: [bool; NPINS]) -> TRig {
        let bd = Board::new(levels);
        let p = mk_par8(&bd);
        TRig { bd, iface: Some(RealIface::Par8(p)), lat: Latcher::new(levels, false) }
    }
    pub fn par16(levels: [bool; NPINS]) -> TRig {
        let bd = Board::new(levels);
        let p = mk_par16(&bd);
        TRig { bd, iface: Some(RealIface::Par16(p)), lat: Latcher::new(levels, true) }
    }
    pub fn call(&mut self, c: &TCall) -> Outcome {
        let i = self.iface.as_mut().unwrap();
        guarded(|| match i {
            RealIface::Spi(s, _) => exec_call(s, c).map_err(|e| e.classify()),
            RealIface::Par8(p) => exec_call(p, c).map_err(|e| e.classify()),
            RealIface::Par16(p) => exec_call(p, c).map_err(|e| e.classify()),
        })
    }
    /// `InterfaceExt::write_raw` on the real interface
    pub fn call_raw(&mut self, op: u8, params: &[u8]) -> Outcome {
        use mipidsi::dcs::InterfaceExt;
        let i = self.iface.as_mut().unwrap();
        guarded(|| match i {
            RealIface::Spi(s, _) => s.write_raw(op, params).map_err(|e| e.classify()),
            RealIface::Par8(p) => p.write_raw(op, params).map_err(|e| e.classify()),
            RealIface::Par16(p) => p.write_raw(op, params).map_err(|e| e.classify()),
        })
    }
    pub fn latched(&mut self) -> Vec<(bool, u16)> {
        let b = self.bd.borrow();
        self.lat.drain(&b)
    }
    pub fn bus_last(&self) -> Option<Option<u16>> {
        match self.iface.as_ref().unwrap() {
            RealIface::Par8(p) => p.bus_last(),
            RealIface::Par16(p) => p.bus_last(),
            RealIface::Spi(..) => None,
        }
    }
}
impl Drop for TRig {
    fn drop(&mut self) {
        if let Some(RealIface::Spi(s, mut buf)) = self.iface.take() {
            drop(s);
            // SAFETY: the interface borrowing the buffer has just been dropped
            unsafe { buf.free() }
        }
    }
}
