//! small helpers
#![allow(dead_code)]

/// FNV-1a 64 (deterministic, no random state)
#[derive(Clone)]
pub struct Fnv(pub u64);
impl Fnv {
    pub fn new() -> Fnv {
        Fnv(0xcbf29ce484222325)
    }
    #[inline]
    pub fn byte(&mut self, b: u8) {
        self.0 ^= b as u64;
        self.0 = self.0.wrapping_mul(0x100000001b3);
    }
    #[inline]
    pub fn u32(&mut self, v: u32) {
        for b in v.to_le_bytes() {
            self.byte(b);
        }
    }
    #[inline]
    pub fn u64(&mut self, v: u64) {
        for b in v.to_le_bytes() {
            self.byte(b);
        }
    }
    pub fn bytes(&mut self, v: &[u8]) {
        for b in v {
            self.byte(*b);
        }
    }
    pub fn str(&mut self, s: &str) {
        self.bytes(s.as_bytes());
        self.byte(0xff);
    }
    pub fn finish(&self) -> u64 {
        self.0
    }
}
