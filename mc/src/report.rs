//! Accumulators, violations, replay files, evidence files, known findings.
#![allow(dead_code)]

use std::collections::{BTreeMap, HashSet};
use std::path::{Path, PathBuf};

use serde::{Deserialize, Serialize};
use serde_json::{json, Value};

use crate::util::Fnv;

pub const VERIF_DIR: &str = "/verif";
/// where evidence/ and replays/ are written (self-test runs redirect them with MC_OUT_DIR)
pub fn verif_root() -> PathBuf {
    PathBuf::from(std::env::var("MC_VERIF_ROOT").unwrap_or_else(|_| VERIF_DIR.to_string()))
}
pub fn out_dir() -> PathBuf {
    std::env::var("MC_OUT_DIR").map(PathBuf::from).unwrap_or_else(|_| verif_root())
}

#[derive(Clone, Copy, Debug, PartialEq, Eq)]
pub enum Tier {
    Quick,
    Thorough,
}

#[derive(Clone, Debug)]
pub struct Ctx {
    pub prop: String,
    pub tier: Tier,
    /// build variant of this binary
    pub batch: bool,
    pub wrap: bool,
    pub ptr16: bool,
    pub variant: String,
    pub seed: i64,
}
impl Ctx {
    pub fn quick(&self) -> bool {
        self.tier == Tier::Quick
    }
}

#[derive(Clone, Debug, Serialize, Deserialize)]
pub struct Violation {
    pub prop: String,
    /// signature: entry point + failing input class; known findings are matched on it
    pub sig: String,
    pub msg: String,
    /// everything needed to replay: variant, configuration, history, faults
    pub case: Value,
}

#[derive(Clone, Debug, Default, Serialize, Deserialize)]
pub struct Acc {
    pub evaluations: u64,
    pub nontrivial: u64,
    pub states: u64,
    pub transitions: u64,
    pub traces: u64,
    #[serde(skip)]
    pub outcomes: HashSet<u64>,
    pub n_outcomes: u64,
    pub viol_count: u64,
    pub viols: Vec<Violation>,
    pub samples: Vec<Value>,
    /// named counters: vacuity guards and informational counts
    pub counters: BTreeMap<String, u64>,
    pub caps: Vec<String>,
    pub notes: Vec<String>,
}

pub const MAX_VIOLS_KEPT: usize = 12;

impl Acc {
    pub fn new() -> Acc {
        Acc::default()
    }
    #[inline]
    pub fn outcome(&mut self, d: u64) {
        self.outcomes.insert(d);
    }
    #[inline]
    pub fn count(&mut self, name: &str, n: u64) {
        if let Some(c) = self.counters.get_mut(name) {
            *c += n;
        } else {
            self.counters.insert(name.to_string(), n);
        }
    }
    pub fn sample(&mut self, v: Value) {
        if self.samples.len() < 4 {
            self.samples.push(v);
        }
    }
    pub fn violation(&mut self, v: Violation) {
        // a history the harness could not simulate on this driver: counted, listed as a cap, not a verdict
        if v.sig.starts_with("inconclusive/") {
            self.count("inconclusive_histories", 1);
            let cap = v.sig.split('/').take(2).collect::<Vec<_>>().join("/");
            if !self.caps.contains(&cap) {
                self.caps.push(cap);
            }
            return;
        }
        self.viol_count += 1;
        // keep the first few per signature; simplest-first enumeration makes them the shortest
        let same = self.viols.iter().filter(|x| x.sig == v.sig).count();
        if same < 2 && self.viols.len() < MAX_VIOLS_KEPT * 4 {
            self.viols.push(v);
        }
    }
    pub fn merge(mut self, o: Acc) -> Acc {
        self.evaluations += o.evaluations;
        self.nontrivial += o.nontrivial;
        self.states += o.states;
        self.transitions += o.transitions;
        self.traces += o.traces;
        if self.outcomes.len() < o.outcomes.len() {
            let mut oo = o.outcomes;
            oo.extend(self.outcomes.drain());
            self.outcomes = oo;
        } else {
            self.outcomes.extend(o.outcomes);
        }
        self.viol_count += o.viol_count;
        for v in o.viols {
            let same = self.viols.iter().filter(|x| x.sig == v.sig).count();
            if same < 2 && self.viols.len() < MAX_VIOLS_KEPT * 4 {
                self.viols.push(v);
            }
        }
        for s in o.samples {
            if self.samples.len() < 4 {
                self.samples.push(s);
            }
        }
        for (k, v) in o.counters {
            *self.counters.entry(k).or_insert(0) += v;
        }
        for c in o.caps {
            if !self.caps.contains(&c) {
                self.caps.push(c);
            }
        }
        self.notes.extend(o.notes);
        self
    }
}

/// result of one property on one build variant
#[derive(Clone, Debug, Serialize, Deserialize)]
pub struct Part {
    pub prop: String,
    pub variant: String,
    pub acc: Acc,
    /// free-form description of the alphabet / bounds actually used
    pub bounds: Value,
    pub exhaustive: bool,
    /// vacuity guards that failed (machinery condition)
    pub vacuity_failures: Vec<String>,
    pub wall_s: f64,
}

impl Part {
    pub fn new(ctx: &Ctx, mut acc: Acc, bounds: Value, exhaustive: bool, wall_s: f64) -> Part {
        acc.n_outcomes = acc.outcomes.len() as u64;
        Part {
            prop: ctx.prop.clone(),
            variant: ctx.variant.clone(),
            acc,
            bounds,
            exhaustive,
            vacuity_failures: Vec::new(),
            wall_s,
        }
    }
    /// vacuity guard: the named counter must be at least `min`
    pub fn require(&mut self, name: &str, min: u64) {
        let got = self.acc.counters.get(name).copied().unwrap_or(0);
        if got < min {
            self.vacuity_failures.push(format!("vacuity guard '{name}': {got} < {min}"));
        }
    }
}

// ------------------------------------------------------------------------------------------------
// known findings

#[derive(Clone, Debug, Serialize, Deserialize)]
pub struct KnownEntry {
    /// "known" or "fixed"
    pub status: String,
    pub property: String,
    /// violation signature (known) — ignored for fixed entries, which suppress nothing
    #[serde(default)]
    pub sig: String,
    #[serde(default)]
    pub commit: String,
    pub what: String,
    /// the canonical one-line form
    pub line: String,
}
#[derive(Clone, Debug, Default, Serialize, Deserialize)]
pub struct KnownFile {
    pub entries: Vec<KnownEntry>,
}
pub fn load_known() -> KnownFile {
    let p = verif_root().join("known_findings.json");
    match std::fs::read_to_string(&p) {
        Ok(s) => serde_json::from_str(&s).unwrap_or_else(|e| {
            eprintln!("MACHINERY: cannot parse {}: {e}", p.display());
            std::process::exit(2)
        }),
        Err(_) => KnownFile::default(),
    }
}

// ------------------------------------------------------------------------------------------------
// final reporting

pub fn write_replay(v: &Violation) -> PathBuf {
    let dir = out_dir().join("replays");
    let _ = std::fs::create_dir_all(&dir);
    let body = serde_json::to_string_pretty(&json!({
        "property": v.prop, "signature": v.sig, "message": v.msg, "case": v.case
    }))
    .unwrap();
    let mut h = Fnv::new();
    h.str(&body);
    let p = dir.join(format!("{}-{:016x}.json", v.prop, h.finish()));
    std::fs::write(&p, body).expect("write replay");
    p
}

pub struct Final {
    pub exit: i32,
}

/// Merge the parts of all variants, write the evidence file, print the verdict lines.
pub fn finish(ctx: &Ctx, level: &str, rule: &str, assumptions: &[&str], parts: Vec<Part>) -> i32 {
    let known = load_known();
    let mut total = Acc::new();
    let mut wall = 0.0;
    let mut exhaustive = true;
    let mut bounds = serde_json::Map::new();
    let mut vac = Vec::new();
    let mut per_variant = serde_json::Map::new();
    for p in &parts {
        wall += p.wall_s;
        exhaustive &= p.exhaustive;
        bounds.insert(p.variant.clone(), p.bounds.clone());
        for f in &p.vacuity_failures {
            vac.push(format!("[{}] {}", p.variant, f));
        }
        per_variant.insert(
            p.variant.clone(),
            json!({"evaluations": p.acc.evaluations, "distinct_nontrivial": p.acc.nontrivial, "states": p.acc.states,
                   "transitions": p.acc.transitions, "distinct_outcomes": p.acc.n_outcomes, "violations": p.acc.viol_count,
                   "wall_s": p.wall_s, "counters": p.acc.counters}),
        );
    }
    let mut n_outcomes = 0;
    for p in parts {
        n_outcomes += p.acc.n_outcomes;
        let mut a = p.acc;
        for s in a.samples.iter_mut() {
            if let Value::Object(m) = s {
                m.insert("variant".into(), json!(p.variant));
            }
        }
        for v in a.viols.iter_mut() {
            if let Value::Object(m) = &mut v.case {
                m.insert("variant".into(), json!(p.variant));
            }
        }
        total = total.merge(a);
    }

    // classify violations against the known-findings file
    let mut unknown: Vec<&Violation> = Vec::new();
    let mut known_hit: BTreeMap<String, (&KnownEntry, u64)> = BTreeMap::new();
    for v in &total.viols {
        let k = known
            .entries
            .iter()
            .find(|e| e.status == "known" && e.property == v.prop && e.sig == v.sig);
        match k {
            Some(e) => {
                known_hit.entry(e.sig.clone()).or_insert((e, 0)).1 += 1;
            }
            None => unknown.push(v),
        }
    }
    let mut lines = Vec::new();
    for (_, (e, _)) in &known_hit {
        lines.push(format!("KNOWN-FINDING: property={} {} {}", e.property, e.sig, e.what));
    }
    let mut replay_paths = Vec::new();
    for v in unknown.iter().take(MAX_VIOLS_KEPT) {
        let p = write_replay(v);
        lines.push(format!("VIOLATION property={} replay={}", v.prop, p.display()));
        eprintln!("  [{}] {}: {}", v.prop, v.sig, v.msg);
        replay_paths.push(p.display().to_string());
    }

    let tier = if ctx.tier == Tier::Quick { "quick" } else { "thorough" };
    let states = total.states.max(1);
    let coverage = json!({
        "evaluations": total.evaluations,
        "distinct_nontrivial": total.nontrivial,
        "rule": rule,
        "samples": total.samples,
        "states": states,
        "transitions": total.transitions.max(total.evaluations),
        "traces_validated_against_impl": total.traces.max(total.evaluations),
        "distinct_outcomes": n_outcomes,
        "exhaustive": exhaustive && total.caps.is_empty(),
        "caps_hit": total.caps,
        "bounds": Value::Object(bounds),
        "per_variant": Value::Object(per_variant),
        "counters": total.counters,
        "notes": total.notes,
        "violation_signatures": total.viols.iter().map(|v| v.sig.clone()).collect::<std::collections::BTreeSet<_>>(),
        "known_findings_reported": known_hit.keys().collect::<Vec<_>>(),
        "replays": replay_paths,
    });
    let ev = json!({
        "property_id": ctx.prop,
        "tier": tier,
        "seed": ctx.seed,
        "level": level,
        "coverage": coverage,
        "assumptions": assumptions,
        "wall_s": wall,
        "violations": unknown.len(),
    });
    let dir = out_dir().join("evidence");
    let _ = std::fs::create_dir_all(&dir);
    std::fs::write(dir.join(format!("{}.json", ctx.prop)), serde_json::to_string_pretty(&ev).unwrap())
        .expect("write evidence");

    println!(
        "{} [{}] evaluations={} nontrivial={} states={} transitions={} outcomes={} violations={} known={} wall={:.1}s",
        ctx.prop,
        tier,
        total.evaluations,
        total.nontrivial,
        states,
        total.transitions.max(total.evaluations),
        n_outcomes,
        total.viol_count,
        known_hit.len(),
        wall
    );
    for l in &lines {
        println!("{l}");
    }
    if !unknown.is_empty() {
        return 1;
    }
    if !vac.is_empty() {
        for v in &vac {
            eprintln!("MACHINERY: {v}");
        }
        return 2;
    }
    0
}
