//! A closed system: board + real driver + pin-level decoder + reference controller.
//! Also the serialisable operation alphabet and its executor.
#![allow(dead_code)]

use std::cell::{Cell, RefCell};
use std::panic::{catch_unwind, AssertUnwindSafe};

use serde::{Deserialize, Serialize};

use crate::ctl::Ctl;
use crate::dut::*;
use crate::env::*;
use crate::spec::Canvas;

// ------------------------------------------------------------------------------------------------
// panic capture

thread_local! {
    static LAST_PANIC: RefCell<Option<String>> = const { RefCell::new(None) };
    static PULLS: Cell<u64> = const { Cell::new(0) };
}

pub fn install_panic_hook() {
    std::panic::set_hook(Box::new(|info| {
        let loc = info.location().map(|l| format!("{}:{}", l.file(), l.line())).unwrap_or_default();
        let msg = if let Some(s) = info.payload().downcast_ref::<&str>() {
            s.to_string()
        } else if let Some(s) = info.payload().downcast_ref::<String>() {
            s.clone()
        } else if info.payload().downcast_ref::<BudgetExhausted>().is_some() {
            "budget".to_string()
        } else {
            "<non-string panic>".to_string()
        };
        LAST_PANIC.with(|p| *p.borrow_mut() = Some(format!("{msg} @ {loc}")));
        let harness = !loc.starts_with('/') && msg != "budget";
        if harness || std::env::var_os("MC_SHOW_PANICS").is_some() {
            eprintln!("panic: {msg} @ {loc}");
        }
    }));
}

#[derive(Clone, Debug, PartialEq, Eq, Hash, Serialize, Deserialize)]
pub enum Outcome {
    Ok,
    Err(ErrClass),
    /// the driver panicked (message @ location)
    Panic(String),
    /// the call did not terminate within its budget of low-level operations / colour pulls
    NonTermination(String),
}
impl Outcome {
    pub fn is_ok(&self) -> bool {
        matches!(self, Outcome::Ok)
    }
}

/// Run a closure that calls into the driver; panics become outcomes.
pub fn guarded<F: FnOnce() -> Res>(f: F) -> Outcome {
    match catch_unwind(AssertUnwindSafe(f)) {
        Ok(Ok(())) => Outcome::Ok,
        Ok(Err(e)) => Outcome::Err(e),
        Err(p) => {
            if let Some(b) = p.downcast_ref::<BudgetExhausted>() {
                Outcome::NonTermination(b.0.to_string())
            } else {
                let m = LAST_PANIC.with(|p| p.borrow_mut().take()).unwrap_or_else(|| "?".into());
                // a panic raised by the harness itself is a machinery error, not a verdict
                let file = m.rsplit(" @ ").next().unwrap_or("");
                if !file.starts_with('/') && !m.starts_with("budget") {
                    eprintln!("MACHINERY: harness panic: {m}");
                    std::process::exit(3);
                }
                Outcome::Panic(m)
            }
        }
    }
}

// ------------------------------------------------------------------------------------------------
// operation alphabet

/// colour index of the k-th element of an index-coded stream
#[inline]
pub fn code(base: u32, k: u64, c666: bool) -> u32 {
    let m = if c666 { 1u64 << 18 } else { 1u64 << 16 };
    ((base as u64 + k) % m) as u32
}

#[derive(Clone, Debug, PartialEq, Eq, Hash, Serialize, Deserialize)]
pub enum Colors {
    List(Vec<u32>),
    /// colour k = code(base, k); `len = None` is an endless stream
    Coded { base: u32, len: Option<u64> },
    /// `len` colours like `Coded`, from a source whose `size_hint` claims exactly `hint` items (the hint is advisory:
    /// a source may yield more or fewer, e.g. an adaptor that forwards its inner iterator's hint)
    Hinted { base: u32, len: u64, hint: u64 },
}
impl Colors {
    pub fn len(&self) -> Option<u64> {
        match self {
            Colors::List(v) => Some(v.len() as u64),
            Colors::Coded { len, .. } => *len,
            Colors::Hinted { len, .. } => Some(*len),
        }
    }
    pub fn at(&self, k: u64, c666: bool) -> u32 {
        match self {
            Colors::List(v) => v[k as usize],
            Colors::Coded { base, .. } | Colors::Hinted { base, .. } => code(*base, k, c666),
        }
    }
}

#[derive(Clone, Copy, Debug, PartialEq, Eq, Hash, Serialize, Deserialize)]
pub enum Sym {
    Px { x: i32, y: i32 },
    /// `len` pixels starting at (x,y), left to right (or right to left if `rev`)
    Run { x: i32, y: i32, len: u32, rev: bool },
    /// raster of a w x h block
    Block { x: i32, y: i32, w: u32, h: u32 },
    /// vertical run downwards
    Col { x: i32, y: i32, len: u32 },
}
impl Sym {
    pub fn count(&self) -> u64 {
        match *self {
            Sym::Px { .. } => 1,
            Sym::Run { len, .. } | Sym::Col { len, .. } => len as u64,
            Sym::Block { w, h, .. } => w as u64 * h as u64,
        }
    }
    pub fn at(&self, i: u64) -> (i32, i32) {
        match *self {
            Sym::Px { x, y } => (x, y),
            Sym::Run { x, y, len, rev } => {
                if rev {
                    (x + (len as i32 - 1 - i as i32), y)
                } else {
                    (x + i as i32, y)
                }
            }
            Sym::Block { x, y, w, .. } => (x + (i % w as u64) as i32, y + (i / w as u64) as i32),
            Sym::Col { x, y, .. } => (x, y + i as i32),
        }
    }
}

#[derive(Clone, Debug, PartialEq, Eq, Hash, Serialize, Deserialize)]
pub enum Pixels {
    List(Vec<(i32, i32, u32)>),
    /// concatenation of symbols, colour of the k-th pixel of the stream = code(base, k)
    Syms { syms: Vec<Sym>, base: u32 },
}
impl Pixels {
    pub fn expand(&self, c666: bool) -> Vec<(i32, i32, u32)> {
        match self {
            Pixels::List(v) => v.clone(),
            Pixels::Syms { syms, base } => {
                let mut out = Vec::new();
                let mut k = 0u64;
                for s in syms {
                    for i in 0..s.count() {
                        let (x, y) = s.at(i);
                        out.push((x, y, code(*base, k, c666)));
                        k += 1;
                    }
                }
                out
            }
        }
    }
}

#[derive(Clone, Debug, PartialEq, Eq, Hash, Serialize, Deserialize)]
pub enum Op {
    SetPixel { x: u16, y: u16, c: u32 },
    SetPixels { sx: u16, sy: u16, ex: u16, ey: u16, colors: Colors },
    DrawIter(Pixels),
    FillContiguous { r: Rect, colors: Colors },
    FillSolid { r: Rect, c: u32 },
    Clear { c: u32 },
    SetOrientation(u8),
    ScrollRegion(u16, u16),
    ScrollOffset(u16),
    Tearing(u8),
    Sleep,
    Wake,
    TestImage,
}
impl Op {
    pub fn is_drawing(&self) -> bool {
        matches!(
            self,
            Op::SetPixel { .. }
                | Op::SetPixels { .. }
                | Op::DrawIter(_)
                | Op::FillContiguous { .. }
                | Op::FillSolid { .. }
                | Op::Clear { .. }
                | Op::TestImage
        )
    }
    pub fn name(&self) -> &'static str {
        match self {
            Op::SetPixel { .. } => "set_pixel",
            Op::SetPixels { .. } => "set_pixels",
            Op::DrawIter(_) => "draw_iter",
            Op::FillContiguous { .. } => "fill_contiguous",
            Op::FillSolid { .. } => "fill_solid",
            Op::Clear { .. } => "clear",
            Op::SetOrientation(_) => "set_orientation",
            Op::ScrollRegion(..) => "set_vertical_scroll_region",
            Op::ScrollOffset(_) => "set_vertical_scroll_offset",
            Op::Tearing(_) => "set_tearing_effect",
            Op::Sleep => "sleep",
            Op::Wake => "wake",
            Op::TestImage => "test_image",
        }
    }
}

/// colour iterator with a pull budget (termination made observable) and a pull counter
pub struct Budgeted<'a> {
    src: &'a Colors,
    k: u64,
    c666: bool,
    budget: u64,
}
impl<'a> Iterator for Budgeted<'a> {
    type Item = u32;
    #[inline]
    fn next(&mut self) -> Option<u32> {
        if let Some(l) = self.src.len() {
            if self.k >= l {
                return None;
            }
        }
        if self.budget == 0 {
            std::panic::panic_any(BudgetExhausted("colour pull budget exhausted"));
        }
        self.budget -= 1;
        let v = self.src.at(self.k, self.c666);
        self.k += 1;
        PULLS.with(|p| p.set(p.get() + 1));
        Some(v)
    }
    fn size_hint(&self) -> (usize, Option<usize>) {
        match self.src {
            Colors::Hinted { hint, .. } => {
                let h = hint.saturating_sub(self.k) as usize;
                (h, Some(h))
            }
            _ => (0, None),
        }
    }
    /// O(1) skip: consumes n+1 elements of the budget
    fn nth(&mut self, n: usize) -> Option<u32> {
        let n = n as u64;
        if let Some(l) = self.src.len() {
            if self.k.saturating_add(n) >= l {
                let consumed = l - self.k.min(l);
                self.k = l;
                PULLS.with(|p| p.set(p.get() + consumed));
                return None;
            }
        }
        if self.budget <= n {
            std::panic::panic_any(BudgetExhausted("colour pull budget exhausted"));
        }
        self.budget -= n + 1;
        self.k += n;
        let v = self.src.at(self.k, self.c666);
        self.k += 1;
        PULLS.with(|p| p.set(p.get() + n + 1));
        Some(v)
    }
}

pub fn pulls() -> u64 {
    PULLS.with(|p| p.get())
}
pub fn reset_pulls() {
    PULLS.with(|p| p.set(0))
}

/// Apply a drawing operation to the specification canvas.
pub fn spec_apply(cv: &mut Canvas, op: &Op, c666: bool) {
    let pk = |i: u32| packed_of(c666, i);
    match op {
        Op::SetPixel { x, y, c } => cv.point(*x as i64, *y as i64, pk(*c)),
        Op::SetPixels { sx, sy, ex, ey, colors } => {
            // row-major into the (in-bounds) window, at most area-many colours
            let w = (*ex as u64) - (*sx as u64) + 1;
            let h = (*ey as u64) - (*sy as u64) + 1;
            let n = colors.len().map(|l| l.min(w * h)).unwrap_or(w * h);
            for k in 0..n {
                cv.point(*sx as i64 + (k % w) as i64, *sy as i64 + (k / w) as i64, pk(colors.at(k, c666)));
            }
        }
        Op::DrawIter(px) => match px {
            Pixels::List(v) => {
                for &(x, y, c) in v {
                    cv.point(x as i64, y as i64, pk(c));
                }
            }
            Pixels::Syms { syms, base } => {
                let mut k = 0u64;
                for s in syms {
                    for i in 0..s.count() {
                        let (x, y) = s.at(i);
                        cv.point(x as i64, y as i64, pk(code(*base, k, c666)));
                        k += 1;
                    }
                }
            }
        },
        Op::FillContiguous { r, colors } => {
            cv.fill_contiguous(r.x as i64, r.y as i64, r.w as u64, r.h as u64, colors.len(), &|k| pk(colors.at(k, c666)))
        }
        Op::FillSolid { r, c } => cv.fill_solid(r.x as i64, r.y as i64, r.w as u64, r.h as u64, pk(*c)),
        Op::Clear { c } => {
            let (lw, lh) = cv.geo.lsize();
            cv.fill_solid(0, 0, lw as u64, lh as u64, pk(*c))
        }
        _ => {}
    }
}

// ------------------------------------------------------------------------------------------------
// decoder: timeline -> words latched by the device

pub struct Decoder {
    pos: usize,
    levels: [bool; NPINS],
    pub n_txn: u64,
    pub n_spi_other: u64,
}
impl Decoder {
    pub fn new(levels: [bool; NPINS]) -> Decoder {
        Decoder { pos: 0, levels, n_txn: 0, n_spi_other: 0 }
    }
    pub fn reset_pos(&mut self) {
        self.pos = 0;
    }
    /// feed all new events into the controller
    pub fn sync(&mut self, b: &Board, tr: Transport, ctl: &mut Ctl) {
        self.sync_until(b, tr, ctl, b.evs.len())
    }
    /// feed the events up to (excluding) index `end`
    pub fn sync_until(&mut self, b: &Board, tr: Transport, ctl: &mut Ctl, end: usize) {
        let nbits = if tr.bus16() { 16 } else { 8 };
        while self.pos < b.evs.len().min(end) {
            let ev = b.evs[self.pos];
            self.pos += 1;
            match ev {
                Ev::Delay { ns } => ctl.now_ns += ns,
                Ev::Pin { pin, high, applied, .. } => {
                    if !applied {
                        continue;
                    }
                    let was = self.levels[pin as usize];
                    self.levels[pin as usize] = high;
                    if pin == PIN_WR && high && !was {
                        // rising edge of the write strobe: the device latches the bus
                        let mut w = 0u16;
                        for i in 0..nbits {
                            if self.levels[i] {
                                w |= 1 << i;
                            }
                        }
                        ctl.latch(self.levels[PIN_DC as usize], w);
                    } else if pin == PIN_RST && !high && was {
                        ctl.hw_reset();
                    }
                }
                Ev::SpiWrite { dc, ok, off, len, first } => {
                    if first {
                        self.n_txn += 1;
                    }
                    if ok {
                        for &byte in &b.bytes[off as usize..(off + len) as usize] {
                            ctl.latch(dc, byte as u16);
                        }
                    }
                }
                Ev::SpiEmptyTxn { .. } => self.n_txn += 1,
                Ev::SpiOther => {
                    self.n_spi_other += 1;
                    ctl.viols.push(crate::ctl::Viol::Other("SPI read/transfer issued by a write-only driver".into()));
                }
                Ev::Cmd { op, off, len, ok } => {
                    if ok {
                        ctl.latch(false, op as u16);
                        for &p in &b.bytes[off as usize..(off + len) as usize] {
                            ctl.latch(true, p as u16);
                        }
                    }
                }
                Ev::Pixels { off, len, ok, .. } => {
                    if ok {
                        for &w in &b.words[off as usize..(off + len) as usize] {
                            ctl.latch(true, w);
                        }
                    }
                }
                Ev::Repeat { off, n, count, ok } => {
                    if ok {
                        let ws: Vec<u16> = b.words[off as usize..off as usize + n as usize].to_vec();
                        ctl.repeat(&ws, count as u64);
                    }
                }
            }
        }
    }
}

// ------------------------------------------------------------------------------------------------
// the rig

pub struct Rig {
    pub cfg: Cfg,
    pub bd: Bd,
    pub dec: Decoder,
    pub ctl: Ctl,
    pub dut: Option<Owned>,
    pub init: Outcome,
    pub delay: VDelay,
    /// low-level operations one call may use before it counts as non-terminating
    pub call_budget: u64,
}

pub const DEFAULT_BUDGET: u64 = 50_000_000;

impl Rig {
    pub fn new(cfg: &Cfg) -> Rig {
        Rig::with(cfg, Board::default_levels(), &[])
    }
    pub fn with(cfg: &Cfg, levels: [bool; NPINS], faults: &[Fault]) -> Rig {
        let bd = Board::new(levels);
        {
            let mut b = bd.borrow_mut();
            b.faults = faults.to_vec();
            b.budget = DEFAULT_BUDGET;
            b.word_budget = DEFAULT_BUDGET;
        }
        let (fw, fh) = cfg.fb();
        let mut ctl = Ctl::new(fw, fh, cfg.tr.bus16());
        if let ModelId::Builtin(i) = cfg.model {
            ctl.vendor_pages = BUILTINS[i as usize].vendor_pages;
        }
        let mut dut = None;
        let init = guarded(|| match build(cfg, &bd) {
            Ok(d) => {
                dut = Some(d);
                Ok(())
            }
            Err(e) => Err(e),
        });
        let delay = VDelay::new(&bd);
        let mut r = Rig { cfg: *cfg, bd, dec: Decoder::new(levels), ctl, dut, init, delay, call_budget: DEFAULT_BUDGET };
        r.sync();
        r.ctl.finish_cmd();
        r
    }
    pub fn sync(&mut self) {
        let b = self.bd.borrow();
        self.dec.sync(&b, self.cfg.tr, &mut self.ctl);
    }
    /// drop the event log (long-running rigs); decoder and controller state are kept
    pub fn reset_logs(&mut self) {
        self.sync();
        let mut b = self.bd.borrow_mut();
        b.evs.clear();
        b.bytes.clear();
        b.words.clear();
        self.dec.reset_pos();
        self.ctl.cmds.clear();
    }
    /// number of low-level operations so far
    pub fn ops(&self) -> u64 {
        self.bd.borrow().ops
    }
    pub fn set_faults(&mut self, f: &[Fault]) {
        self.bd.borrow_mut().faults = f.to_vec();
    }
    pub fn set_budget(&mut self, ops: u64, _words: u64) {
        self.call_budget = ops;
    }
    pub fn c666(&self) -> bool {
        self.cfg.c666()
    }

    /// Execute one operation on the real driver; bus traffic is decoded into the controller and
    /// the current command is closed (a driver call always starts with a command).
    pub fn apply(&mut self, op: &Op) -> Outcome {
        // a call may legitimately consume as many colours as the rectangle has points (plus a peek)
        let budget = match op {
            Op::FillContiguous { r, .. } => r.w as u64 * r.h as u64 + 16,
            Op::SetPixels { sx, sy, ex, ey, .. } => {
                (*ex as u64).saturating_sub(*sx as u64).saturating_add(1) * (*ey as u64).saturating_sub(*sy as u64).saturating_add(1) + 16
            }
            _ => 1 << 22,
        };
        self.apply_budget(op, budget)
    }
    pub fn apply_budget(&mut self, op: &Op, pull_budget: u64) -> Outcome {
        // the termination budget is per call, not per rig lifetime
        {
            let mut b = self.bd.borrow_mut();
            if b.budget != u64::MAX {
                b.budget = self.call_budget;
                b.word_budget = self.call_budget;
            }
        }
        let c666 = self.c666();
        let d = self.dut.as_mut().expect("display was not built");
        let delay = &mut self.delay;
        let out = guarded(|| match op {
            Op::SetPixel { x, y, c } => d.set_pixel(*x, *y, *c),
            Op::SetPixels { sx, sy, ex, ey, colors } => {
                let mut it = Budgeted { src: colors, k: 0, c666, budget: pull_budget };
                d.set_pixels(*sx, *sy, *ex, *ey, &mut it)
            }
            Op::DrawIter(px) => match px {
                Pixels::List(v) => d.draw_iter(&mut v.iter().copied()),
                Pixels::Syms { .. } => {
                    let v = px.expand(c666);
                    d.draw_iter(&mut v.into_iter())
                }
            },
            Op::FillContiguous { r, colors } => {
                let mut it = Budgeted { src: colors, k: 0, c666, budget: pull_budget };
                d.fill_contiguous(*r, &mut it)
            }
            Op::FillSolid { r, c } => d.fill_solid(*r, *c),
            Op::Clear { c } => d.clear(*c),
            Op::SetOrientation(o) => d.set_orientation(*o),
            Op::ScrollRegion(t, b) => d.scroll_region(*t, *b),
            Op::ScrollOffset(o) => d.scroll_offset(*o),
            Op::Tearing(t) => d.tearing(*t),
            Op::Sleep => d.sleep(delay),
            Op::Wake => d.wake(delay),
            Op::TestImage => d.test_image(),
        });
        self.sync();
        self.ctl.finish_cmd();
        out
    }
}

// ------------------------------------------------------------------------------------------------
// initialisation-only runs (with or without reset pin), observed through the controller model

pub struct InitRun {
    pub cfg: Cfg,
    pub bd: Bd,
    pub ctl: Ctl,
    pub out: Outcome,
    pub state: Option<DState>,
    /// first event of this initialisation on the timeline (non-zero for a retry)
    pub ev_start: usize,
}

/// F_BORROWED|F_RETRY: (first init with the faults, second init fault-free on the same interface).
/// The second run's controller model is fresh (the panel's registers are reset by the reset step anyway)
/// but the decoder continues with the pin levels and the transport state the first attempt left behind.
pub fn init_run_retry(cfg: &Cfg, faults: &[Fault]) -> (Outcome, InitRun) {
    let mut c = *cfg;
    c.flags |= F_BORROWED | F_RETRY;
    let levels = Board::default_levels();
    let bd = Board::new(levels);
    {
        let mut b = bd.borrow_mut();
        b.faults = faults.to_vec();
        b.budget = DEFAULT_BUDGET;
    }
    let (fw, fh) = c.fb();
    let mut first = Outcome::Ok;
    let mut state = None;
    let mut start = 0usize;
    let out = guarded(|| {
        let io = init_only(&c, &bd);
        if let Err(e) = io.res {
            first = Outcome::Err(e);
        }
        let (r2, st) = io.retry.expect("retry result");
        start = st;
        match r2 {
            Ok(s) => {
                state = Some(s);
                Ok(())
            }
            Err(e) => Err(e),
        }
    });
    // decode: a throw-away controller up to the retry, then a fresh one
    let mut dec = Decoder::new(levels);
    let mut scratch = Ctl::new(fw, fh, c.tr.bus16());
    let mut ctl = Ctl::new(fw, fh, c.tr.bus16());
    ctl.keep_cmds = true;
    if let ModelId::Builtin(i) = c.model {
        ctl.vendor_pages = BUILTINS[i as usize].vendor_pages;
        scratch.vendor_pages = ctl.vendor_pages;
    }
    {
        let b = bd.borrow();
        dec.sync_until(&b, c.tr, &mut scratch, start);
        ctl.now_ns = scratch.now_ns;
        dec.sync(&b, c.tr, &mut ctl);
    }
    ctl.finish_cmd();
    (first, InitRun { cfg: c, bd, ctl, out, state, ev_start: start })
}

pub fn init_run(cfg: &Cfg, faults: &[Fault]) -> InitRun {
    let mut levels = Board::default_levels();
    if cfg.flags & F_DATA_HIGH != 0 {
        for l in levels.iter_mut().take(16) {
            *l = true;
        }
    }
    let bd = Board::new(levels);
    {
        let mut b = bd.borrow_mut();
        b.faults = faults.to_vec();
        b.budget = DEFAULT_BUDGET;
    }
    let (fw, fh) = cfg.fb();
    let mut ctl = Ctl::new(fw, fh, cfg.tr.bus16());
    ctl.keep_cmds = true;
    if let ModelId::Builtin(i) = cfg.model {
        ctl.vendor_pages = BUILTINS[i as usize].vendor_pages;
    }
    let mut state = None;
    let out = guarded(|| match init_only(cfg, &bd).res {
        Ok(s) => {
            state = Some(s);
            Ok(())
        }
        Err(e) => Err(e),
    });
    let mut dec = Decoder::new(levels);
    {
        let b = bd.borrow();
        dec.sync(&b, cfg.tr, &mut ctl);
    }
    ctl.finish_cmd();
    InitRun { cfg: *cfg, bd, ctl, out, state, ev_start: 0 }
}
