//! Virtual board: instrumented pins, SPI device, delay source, recording interfaces and the
//! fault injector.  Everything the driver can touch writes into one `Board` timeline.
#![allow(dead_code)]

use std::cell::RefCell;
use std::rc::Rc;

use embedded_hal::delay::DelayNs;
use embedded_hal::digital::{self, OutputPin};
use embedded_hal::spi::{self, Operation, SpiDevice};
use mipidsi::interface::{Interface, InterfaceKind};

pub const PIN_DC: u8 = 16;
pub const PIN_WR: u8 = 17;
pub const PIN_RST: u8 = 18;
pub const NPINS: usize = 19;

pub fn pin_name(p: u8) -> String {
    match p {
        0..=15 => format!("D{p}"),
        PIN_DC => "DC".into(),
        PIN_WR => "WR".into(),
        PIN_RST => "RST".into(),
        _ => format!("P{p}"),
    }
}

/// One low-level event on the timeline.
#[derive(Clone, Copy, Debug, PartialEq, Eq)]
pub enum Ev {
    /// `set_low`/`set_high` on a pin. `applied`: the physical level took the requested value.
    Pin { pin: u8, high: bool, ok: bool, applied: bool },
    /// One `Operation::Write` of an SPI transaction; bytes are `board.bytes[off..off+len]`.
    /// `first`: this write opened a new transaction (transaction counter).
    SpiWrite { dc: bool, ok: bool, off: u32, len: u32, first: bool },
    /// Any SPI operation other than a write (the driver is write-only): protocol violation.
    SpiOther,
    /// Empty transaction (no operations)
    SpiEmptyTxn { ok: bool },
    Delay { ns: u64 },
    /// Recording interface: `send_command`
    Cmd { op: u8, off: u32, len: u32, ok: bool },
    /// Recording interface: `send_pixels`; words are `board.words[off..off+len]`, N words/pixel
    Pixels { off: u32, len: u32, n: u8, ok: bool },
    /// Recording interface: `send_repeated_pixel`
    Repeat { off: u32, n: u8, count: u32, ok: bool },
}

/// What a failing data pin does physically.
#[derive(Clone, Copy, Debug, PartialEq, Eq, Hash, serde::Serialize, serde::Deserialize)]
pub enum FaultMode {
    /// error returned, level unchanged
    Unchanged,
    /// error returned although the level changed (data pins only)
    Changed,
}

#[derive(Clone, Copy, Debug, PartialEq, Eq, Hash, serde::Serialize, serde::Deserialize)]
pub struct Fault {
    pub at: u64,
    pub mode: FaultMode,
}

/// Sentinel panic payloads (termination made observable)
pub struct BudgetExhausted(pub &'static str);

pub struct Board {
    pub evs: Vec<Ev>,
    pub bytes: Vec<u8>,
    pub words: Vec<u16>,
    pub levels: [bool; NPINS],
    pub now_ns: u64,
    /// global low-level operation counter (pin sets, SPI transactions, recording-interface calls)
    pub ops: u64,
    pub faults: Vec<Fault>,
    /// one-shot faults addressed by pin: the next operation on that pin fails
    pub pin_faults: Vec<(u8, FaultMode)>,
    /// Index of ops that failed
    /// (operation index, source) of every injected failure that fired; source = pin id, 100 = SPI, 101 = recording interface
    pub failed_ops: Vec<(u64, u8)>,
    /// remaining low-level operations before a termination violation is raised
    pub budget: u64,
    /// remaining words a recording interface may pull from a pixel iterator
    pub word_budget: u64,
    /// pure counting mode: do not log events (used for the 2^32 strobe leg and init rejection sweeps)
    pub count_only: bool,
    pub wr_rising: u64,
    pub delay_calls: u64,
    /// bytes delivered by successful SPI writes / number of SPI transactions (kept in counting mode too)
    pub spi_bytes: u64,
    pub spi_txns: u64,
    /// expected periodic pixel pattern (period, bytes) of the data phase, and the first offset that deviates
    pub spi_expect: Option<(usize, [u8; 3])>,
    pub spi_mismatch: Option<u64>,
    /// armed: when the next memory-write-start command byte (0x2C with DC low) has been delivered, switch to counting
    /// mode with this expected pixel pattern (display-level fills of more than 2^32 bytes)
    pub arm_on_ramwr: Option<(usize, [u8; 3])>,
    /// just armed: the next transaction, if it carries no bytes, is the (empty) parameter write of the
    /// memory-write-start command and not part of the pixel burst
    pub armed_skip_empty: bool,
}

pub type Bd = Rc<RefCell<Board>>;

impl Board {
    pub fn new(levels: [bool; NPINS]) -> Bd {
        Rc::new(RefCell::new(Board {
            evs: Vec::new(),
            bytes: Vec::new(),
            words: Vec::new(),
            levels,
            now_ns: 0,
            ops: 0,
            faults: Vec::new(),
            pin_faults: Vec::new(),
            failed_ops: Vec::new(),
            budget: u64::MAX,
            word_budget: u64::MAX,
            count_only: false,
            wr_rising: 0,
            delay_calls: 0,
            spi_bytes: 0,
            spi_txns: 0,
            spi_expect: None,
            spi_mismatch: None,
            arm_on_ramwr: None,
            armed_skip_empty: false,
        }))
    }

    /// default initial levels: WR and RST high, DC high, data low.
    pub fn default_levels() -> [bool; NPINS] {
        let mut l = [false; NPINS];
        l[PIN_DC as usize] = true;
        l[PIN_WR as usize] = true;
        l[PIN_RST as usize] = true;
        l
    }

    #[inline]
    fn next_op(&mut self, src: u8) -> (u64, Option<FaultMode>) {
        let i = self.ops;
        self.ops += 1;
        if self.budget == 0 {
            std::panic::panic_any(BudgetExhausted("low-level operation budget exhausted"));
        }
        self.budget -= 1;
        let mut f = None;
        for x in &self.faults {
            if x.at == i {
                f = Some(x.mode);
            }
        }
        if f.is_some() {
            self.failed_ops.push((i, src));
        }
        (i, f)
    }
}

// ------------------------------------------------------------------------------------------------
// pins

#[derive(Clone, Copy, Debug, PartialEq, Eq)]
pub struct PinFault {
    pub pin: u8,
    pub op: u64,
}
impl digital::Error for PinFault {
    fn kind(&self) -> digital::ErrorKind {
        digital::ErrorKind::Other
    }
}

pub struct VPin {
    pub bd: Bd,
    pub pin: u8,
}
impl VPin {
    pub fn new(bd: &Bd, pin: u8) -> Self {
        VPin { bd: bd.clone(), pin }
    }
    #[inline]
    fn set(&mut self, high: bool) -> Result<(), PinFault> {
        let mut b = self.bd.borrow_mut();
        let pin = self.pin;
        let (op, mut f) = b.next_op(pin);
        if let Some(k) = b.pin_faults.iter().position(|x| x.0 == pin) {
            let (_, m) = b.pin_faults.remove(k);
            f = Some(m);
            b.failed_ops.push((op, pin));
        }
        let (ok, applied) = match f {
            None => (true, true),
            Some(FaultMode::Unchanged) => (false, false),
            // only data pins may change level while reporting an error
            Some(FaultMode::Changed) => (false, pin < 16),
        };
        if applied {
            if pin == PIN_WR && high && !b.levels[pin as usize] {
                b.wr_rising += 1;
            }
            b.levels[pin as usize] = high;
        }
        if !b.count_only {
            b.evs.push(Ev::Pin { pin, high, ok, applied });
        }
        if ok {
            Ok(())
        } else {
            Err(PinFault { pin, op })
        }
    }
}
impl digital::ErrorType for VPin {
    type Error = PinFault;
}
impl OutputPin for VPin {
    fn set_low(&mut self) -> Result<(), PinFault> {
        self.set(false)
    }
    fn set_high(&mut self) -> Result<(), PinFault> {
        self.set(true)
    }
}

// ------------------------------------------------------------------------------------------------
// SPI

#[derive(Clone, Copy, Debug, PartialEq, Eq)]
pub struct SpiFault {
    pub op: u64,
}
impl spi::Error for SpiFault {
    fn kind(&self) -> spi::ErrorKind {
        spi::ErrorKind::Other
    }
}
pub struct VSpi {
    pub bd: Bd,
}
impl VSpi {
    pub fn new(bd: &Bd) -> Self {
        VSpi { bd: bd.clone() }
    }
}
impl spi::ErrorType for VSpi {
    type Error = SpiFault;
}
impl SpiDevice<u8> for VSpi {
    fn transaction(&mut self, operations: &mut [Operation<'_, u8>]) -> Result<(), SpiFault> {
        let mut b = self.bd.borrow_mut();
        let (op, f) = b.next_op(100);
        let ok = f.is_none();
        b.spi_txns += 1;
        if b.armed_skip_empty {
            b.armed_skip_empty = false;
            let total: usize = operations.iter().map(|o| if let Operation::Write(w) = o { w.len() } else { 0 }).sum();
            if total == 0 {
                b.spi_txns -= 1;
            }
        }
        let dc = b.levels[PIN_DC as usize];
        if operations.is_empty() && !b.count_only {
            b.evs.push(Ev::SpiEmptyTxn { ok });
        }
        let mut first = true;
        for o in operations.iter() {
            match o {
                Operation::Write(buf) => {
                    if ok && b.arm_on_ramwr.is_some() && !dc && buf.len() == 1 && buf[0] == 0x2C {
                        let off = b.bytes.len() as u32;
                        b.bytes.push(0x2C);
                        b.evs.push(Ev::SpiWrite { dc, ok, off, len: 1, first });
                        b.spi_expect = b.arm_on_ramwr.take();
                        b.count_only = true;
                        b.spi_bytes = 0;
                        b.spi_txns = 0;
                        b.spi_mismatch = None;
                        b.armed_skip_empty = true;
                        first = false;
                        continue;
                    }
                    if ok {
                        if let Some((n, pat)) = b.spi_expect {
                            // the delivered bytes must continue the periodic pixel pattern
                            if b.spi_mismatch.is_none() && pat[..n].iter().all(|x| *x == pat[0]) {
                                if let Some(i) = buf.iter().position(|x| *x != pat[0]) {
                                    b.spi_mismatch = Some(b.spi_bytes + i as u64);
                                }
                            } else if b.spi_mismatch.is_none() {
                                let mut ph = (b.spi_bytes % n as u64) as usize;
                                for (i, &x) in buf.iter().enumerate() {
                                    if x != pat[ph] {
                                        b.spi_mismatch = Some(b.spi_bytes + i as u64);
                                        break;
                                    }
                                    ph += 1;
                                    if ph == n {
                                        ph = 0;
                                    }
                                }
                            }
                        }
                        b.spi_bytes += buf.len() as u64;
                    }
                    if !b.count_only {
                        let off = b.bytes.len() as u32;
                        b.bytes.extend_from_slice(buf);
                        b.evs.push(Ev::SpiWrite { dc, ok, off, len: buf.len() as u32, first });
                    }
                }
                Operation::DelayNs(ns) => {
                    b.now_ns += *ns as u64;
                }
                _ => {
                    b.evs.push(Ev::SpiOther);
                }
            }
            first = false;
        }
        if ok {
            Ok(())
        } else {
            Err(SpiFault { op })
        }
    }
}

// ------------------------------------------------------------------------------------------------
// delay

pub struct VDelay {
    pub bd: Bd,
}
impl VDelay {
    pub fn new(bd: &Bd) -> Self {
        VDelay { bd: bd.clone() }
    }
    #[inline]
    fn add(&mut self, ns: u64) {
        let mut b = self.bd.borrow_mut();
        b.now_ns += ns;
        b.delay_calls += 1;
        if !b.count_only {
            b.evs.push(Ev::Delay { ns });
        }
    }
}
impl DelayNs for VDelay {
    fn delay_ns(&mut self, ns: u32) {
        self.add(ns as u64)
    }
    fn delay_us(&mut self, us: u32) {
        self.add(us as u64 * 1_000)
    }
    fn delay_ms(&mut self, ms: u32) {
        self.add(ms as u64 * 1_000_000)
    }
}

// ------------------------------------------------------------------------------------------------
// recording interfaces (at the `Interface` trait boundary)

#[derive(Clone, Copy, Debug, PartialEq, Eq)]
pub struct RecFault {
    pub op: u64,
}

macro_rules! rec_iface {
    ($name:ident, $word:ty, $kind:expr) => {
        pub struct $name {
            pub bd: Bd,
        }
        impl $name {
            pub fn new(bd: &Bd) -> Self {
                $name { bd: bd.clone() }
            }
        }
        impl Interface for $name {
            type Word = $word;
            type Error = RecFault;
            const KIND: InterfaceKind = $kind;

            fn send_command(&mut self, command: u8, args: &[u8]) -> Result<(), RecFault> {
                let mut b = self.bd.borrow_mut();
                let (op, f) = b.next_op(101);
                let ok = f.is_none();
                if !b.count_only {
                    let off = b.bytes.len() as u32;
                    b.bytes.extend_from_slice(args);
                    b.evs.push(Ev::Cmd { op: command, off, len: args.len() as u32, ok });
                }
                if ok {
                    Ok(())
                } else {
                    Err(RecFault { op })
                }
            }

            fn send_pixels<const N: usize>(
                &mut self,
                pixels: impl IntoIterator<Item = [$word; N]>,
            ) -> Result<(), RecFault> {
                let (op, f) = self.bd.borrow_mut().next_op(101);
                let ok = f.is_none();
                if !ok {
                    // a failed operation delivers nothing and pulls nothing
                    let mut b = self.bd.borrow_mut();
                    let off = b.words.len() as u32;
                    b.evs.push(Ev::Pixels { off, len: 0, n: N as u8, ok });
                    return Err(RecFault { op });
                }
                let off = self.bd.borrow().words.len() as u32;
                let mut len = 0u32;
                // the board must not be borrowed while the caller's iterator runs
                for px in pixels {
                    let mut b = self.bd.borrow_mut();
                    if b.word_budget < N as u64 {
                        drop(b);
                        std::panic::panic_any(BudgetExhausted("pixel word budget exhausted"));
                    }
                    b.word_budget -= N as u64;
                    for w in px {
                        b.words.push(w as u16);
                    }
                    len += N as u32;
                }
                let mut b = self.bd.borrow_mut();
                b.evs.push(Ev::Pixels { off, len, n: N as u8, ok });
                Ok(())
            }

            fn send_repeated_pixel<const N: usize>(
                &mut self,
                pixel: [$word; N],
                count: u32,
            ) -> Result<(), RecFault> {
                let mut b = self.bd.borrow_mut();
                let (op, f) = b.next_op(101);
                let ok = f.is_none();
                let off = b.words.len() as u32;
                for w in pixel {
                    b.words.push(w as u16);
                }
                b.evs.push(Ev::Repeat { off, n: N as u8, count, ok });
                if ok {
                    Ok(())
                } else {
                    Err(RecFault { op })
                }
            }
        }
    };
}

rec_iface!(RecSerial, u8, InterfaceKind::Serial4Line);
rec_iface!(RecPar8, u8, InterfaceKind::Parallel8Bit);
rec_iface!(RecPar16, u16, InterfaceKind::Parallel16Bit);

// ------------------------------------------------------------------------------------------------
// a zero-sized reset pin (typical for HAL GPIO types): it finds its board through a thread-local

thread_local! {
    pub static ZRST_BOARD: RefCell<Option<Bd>> = const { RefCell::new(None) };
}
pub struct ZRst;
impl ZRst {
    pub fn attach(bd: &Bd) -> ZRst {
        ZRST_BOARD.with(|b| *b.borrow_mut() = Some(bd.clone()));
        ZRst
    }
}
impl digital::ErrorType for ZRst {
    type Error = PinFault;
}
impl OutputPin for ZRst {
    fn set_low(&mut self) -> Result<(), PinFault> {
        let bd = ZRST_BOARD.with(|b| b.borrow().clone()).expect("ZRst not attached");
        VPin { bd, pin: PIN_RST }.set_low()
    }
    fn set_high(&mut self) -> Result<(), PinFault> {
        let bd = ZRST_BOARD.with(|b| b.borrow().clone()).expect("ZRst not attached");
        VPin { bd, pin: PIN_RST }.set_high()
    }
}
