//! Reference device: an executable MIPI-DCS controller, written from the command-set
//! description and independent of the driver's arithmetic (DESIGN.md 2.3).
#![allow(dead_code)]

use std::collections::BTreeMap;

pub const UNWRITTEN: u32 = u32::MAX;

/// Rectangular fill kept symbolically (only for framebuffers too large for a dense map).
#[derive(Clone, Copy, Debug, PartialEq, Eq)]
pub struct FillRec {
    pub seq: u64,
    /// physical cell rectangle, inclusive
    pub x0: u16,
    pub y0: u16,
    pub x1: u16,
    pub y1: u16,
    pub val: u32,
}

/// Pixel memory. Dense for small framebuffers, sparse (cells + symbolic rectangle fills, ordered
/// by sequence number) for large ones.
#[derive(Clone, Debug)]
pub struct Mem {
    pub fw: u16,
    pub fh: u16,
    pub dense: Vec<u32>,
    pub sparse: BTreeMap<(u16, u16), (u64, u32)>,
    pub fills: Vec<FillRec>,
    pub seq: u64,
    pub keep_log: bool,
    /// ordered log of cell writes (x, y, value)
    pub log: Vec<(u16, u16, u32)>,
    pub writes: u64,
}

pub const DENSE_LIMIT: usize = 1 << 13;

impl Mem {
    pub fn new(fw: u16, fh: u16) -> Mem {
        let cells = fw as usize * fh as usize;
        Mem {
            fw,
            fh,
            dense: if cells <= DENSE_LIMIT { vec![UNWRITTEN; cells] } else { Vec::new() },
            sparse: BTreeMap::new(),
            fills: Vec::new(),
            seq: 0,
            keep_log: false,
            log: Vec::new(),
            writes: 0,
        }
    }
    pub fn is_dense(&self) -> bool {
        self.fw as usize * self.fh as usize <= DENSE_LIMIT
    }
    pub fn clear(&mut self) {
        for c in self.dense.iter_mut() {
            *c = UNWRITTEN;
        }
        self.sparse.clear();
        self.fills.clear();
        self.log.clear();
        self.seq = 0;
        self.writes = 0;
    }
    #[inline]
    pub fn set(&mut self, x: u16, y: u16, v: u32) {
        debug_assert!(x < self.fw && y < self.fh);
        self.writes += 1;
        if self.keep_log {
            self.log.push((x, y, v));
        }
        if self.is_dense() {
            self.dense[y as usize * self.fw as usize + x as usize] = v;
        } else {
            self.seq += 1;
            self.sparse.insert((x, y), (self.seq, v));
        }
    }
    /// symbolic rectangle fill (sparse mode only)
    pub fn fill_rect(&mut self, x0: u16, y0: u16, x1: u16, y1: u16, v: u32) {
        assert!(!self.is_dense());
        self.seq += 1;
        self.writes += (x1 - x0) as u64 * (y1 - y0) as u64; // approximate, informational
        self.fills.push(FillRec { seq: self.seq, x0, y0, x1, y1, val: v });
        // coalesce: a fill sent in several chunks (row by row, or in runs that end mid-row) must not cost one record
        // per chunk.  Two records written directly after each other (consecutive sequence numbers, so no cell
        // write lies between them) with the same value merge exactly when they are aligned and adjacent.
        while self.fills.len() >= 2 {
            let n = self.fills.len();
            let (a, b) = (self.fills[n - 2], self.fills[n - 1]);
            if a.val != b.val || b.seq != a.seq + 1 {
                break;
            }
            let merged = if a.x0 == b.x0 && a.x1 == b.x1 && (a.y1 as u32 + 1 == b.y0 as u32 || b.y1 as u32 + 1 == a.y0 as u32) {
                Some((a.x0, a.y0.min(b.y0), a.x1, a.y1.max(b.y1)))
            } else if a.y0 == b.y0 && a.y1 == b.y1 && (a.x1 as u32 + 1 == b.x0 as u32 || b.x1 as u32 + 1 == a.x0 as u32) {
                Some((a.x0.min(b.x0), a.y0, a.x1.max(b.x1), a.y1))
            } else {
                None
            };
            match merged {
                Some((x0, y0, x1, y1)) => {
                    self.fills.pop();
                    // keep the earlier record's position in the order, with the later sequence number free again
                    self.fills[n - 2] = FillRec { seq: a.seq, x0, y0, x1, y1, val: a.val };
                    self.seq = a.seq;
                }
                None => break,
            }
        }
    }
    pub fn get(&self, x: u16, y: u16) -> u32 {
        if self.is_dense() {
            return self.dense[y as usize * self.fw as usize + x as usize];
        }
        let mut best: (u64, u32) = (0, UNWRITTEN);
        if let Some(&(s, v)) = self.sparse.get(&(x, y)) {
            best = (s, v);
        }
        for f in &self.fills {
            if f.seq > best.0 && x >= f.x0 && x <= f.x1 && y >= f.y0 && y <= f.y1 {
                best = (f.seq, f.val);
            }
        }
        best.1
    }
    /// Representative coordinates: every boundary of every fill and every sparse cell, +-1.
    fn rep_axis(&self, other: &Mem, xaxis: bool) -> Vec<u16> {
        let lim = if xaxis { self.fw } else { self.fh };
        let mut v: Vec<u16> = vec![0, lim - 1];
        let mut push = |c: u16| {
            for d in [-1i32, 0, 1] {
                let k = c as i32 + d;
                if k >= 0 && k < lim as i32 {
                    v.push(k as u16);
                }
            }
        };
        for m in [self, other] {
            for f in &m.fills {
                if xaxis {
                    push(f.x0);
                    push(f.x1);
                } else {
                    push(f.y0);
                    push(f.y1);
                }
            }
            for (&(x, y), _) in &m.sparse {
                push(if xaxis { x } else { y });
            }
        }
        v.sort_unstable();
        v.dedup();
        v
    }
    /// First differing cell between two memories, or None if equal everywhere.
    /// For sparse memories equality is decided on the arrangement grid of all rectangle
    /// boundaries and written cells (+-1), which is exact for unions of axis-aligned rectangles.
    pub fn first_diff(&self, other: &Mem) -> Option<(u16, u16, u32, u32)> {
        assert!(self.fw == other.fw && self.fh == other.fh);
        if self.is_dense() {
            if self.dense == other.dense {
                return None;
            }
            for (i, (a, b)) in self.dense.iter().zip(other.dense.iter()).enumerate() {
                if a != b {
                    let x = (i % self.fw as usize) as u16;
                    let y = (i / self.fw as usize) as u16;
                    return Some((x, y, *a, *b));
                }
            }
            return None;
        }
        let xs = self.rep_axis(other, true);
        let ys = self.rep_axis(other, false);
        for &y in &ys {
            for &x in &xs {
                let (a, b) = (self.get(x, y), other.get(x, y));
                if a != b {
                    return Some((x, y, a, b));
                }
            }
        }
        None
    }
    pub fn written_cells(&self) -> u64 {
        if self.is_dense() {
            self.dense.iter().filter(|c| **c != UNWRITTEN).count() as u64
        } else {
            self.sparse.len() as u64 + self.fills.len() as u64
        }
    }
    pub fn digest(&self) -> u64 {
        let mut h = crate::util::Fnv::new();
        if self.is_dense() {
            for c in &self.dense {
                h.u32(*c);
            }
        } else {
            for (&(x, y), &(_, v)) in &self.sparse {
                h.u32(x as u32);
                h.u32(y as u32);
                h.u32(v);
            }
            for f in &self.fills {
                h.u32(f.x0 as u32);
                h.u32(f.y0 as u32);
                h.u32(f.x1 as u32);
                h.u32(f.y1 as u32);
                h.u32(f.val);
            }
        }
        h.finish()
    }
}

#[derive(Clone, Debug, PartialEq, Eq)]
pub enum Viol {
    /// pixel data although no memory write was started
    DataWithoutRamwr,
    /// a pixel arrived after the window had already been filled completely
    Overrun { extra_pixels: u64 },
    /// the burst ended in the middle of a pixel
    PartialPixel { words: u8 },
    /// wrong number of parameters for a standard command
    ParamCount { op: u8, got: usize, want: usize },
    /// start > end
    WindowOrder { op: u8, start: u16, end: u16 },
    /// end beyond the column/page extent under the current MV
    WindowExtent { op: u8, end: u16, extent: u16 },
    /// pixel data with no/unsupported announced pixel format for this bus width
    PixelFormat { colmod: Option<u8> },
    /// data word before any command
    DataBeforeCommand,
    /// a command was sent while the previous memory write still had a partial pixel pending
    Other(String),
}

/// Completed command record (for trace monitors)
#[derive(Clone, Debug, PartialEq, Eq)]
pub struct CmdRec {
    pub op: u8,
    pub params: Vec<u8>,
    /// pixels received (only for 0x2C / 0x3C)
    pub pixels: u64,
    pub t_ns: u64,
    /// true if command was interpreted on a manufacturer page != 0 (opaque)
    pub opaque_page: bool,
}

#[derive(Clone, Debug)]
pub struct Ctl {
    pub fw: u16,
    pub fh: u16,
    pub bus16: bool,
    pub vendor_pages: bool,
    // registers
    pub sleeping: bool,
    pub display_on: bool,
    pub inverted: bool,
    pub idle: bool,
    pub normal_mode: bool,
    pub madctl: u8,
    pub colmod: Option<u8>,
    pub caset: (u16, u16),
    pub raset: (u16, u16),
    pub vscrdef: Option<(u16, u16, u16)>,
    pub vscsad: Option<u16>,
    pub te: Option<Option<u8>>,
    pub page: u8,
    // write pointer
    pub ramwr: bool,
    pub ptr: (u16, u16),
    pub full: bool,
    overrun_reported: bool,
    // stream assembly
    cur: Option<u8>,
    cur_opaque: bool,
    params: Vec<u8>,
    pub cur_pixels: u64,
    acc: [u16; 3],
    acc_n: u8,
    cur_t: u64,
    // time
    pub now_ns: u64,
    /// (op, time) of every SLPIN / SLPOUT
    pub slp_events: Vec<(u8, u64)>,
    pub soft_resets: u32,
    pub hw_resets: u32,
    pub mem: Mem,
    pub viols: Vec<Viol>,
    pub keep_cmds: bool,
    pub cmds: Vec<CmdRec>,
    pub n_cmds: u64,
    pub n_ramwr: u64,
    pub n_caset: u64,
    pub n_raset: u64,
    pub n_pixels: u64,
    pub n_madctl: u64,
    /// number of words latched with DC low
    pub n_cmd_words: u64,
    /// raw bus words of the most recent complete pixel
    pub last_raw: [u16; 3],
}

impl Ctl {
    pub fn new(fw: u16, fh: u16, bus16: bool) -> Ctl {
        let mut c = Ctl {
            fw,
            fh,
            bus16,
            vendor_pages: false,
            sleeping: true,
            display_on: false,
            inverted: false,
            idle: false,
            normal_mode: true,
            madctl: 0,
            colmod: None,
            caset: (0, fw - 1),
            raset: (0, fh - 1),
            vscrdef: None,
            vscsad: None,
            te: None,
            page: 0,
            ramwr: false,
            ptr: (0, 0),
            full: false,
            overrun_reported: false,
            cur: None,
            cur_opaque: false,
            params: Vec::new(),
            cur_pixels: 0,
            acc: [0; 3],
            acc_n: 0,
            cur_t: 0,
            now_ns: 0,
            slp_events: Vec::new(),
            soft_resets: 0,
            hw_resets: 0,
            mem: Mem::new(fw, fh),
            viols: Vec::new(),
            keep_cmds: false,
            cmds: Vec::new(),
            n_cmds: 0,
            n_ramwr: 0,
            n_caset: 0,
            n_raset: 0,
            n_pixels: 0,
            n_madctl: 0,
            n_cmd_words: 0,
            last_raw: [0; 3],
        };
        c.reset_regs();
        c
    }

    fn reset_regs(&mut self) {
        self.sleeping = true;
        self.display_on = false;
        self.inverted = false;
        self.idle = false;
        self.normal_mode = true;
        self.madctl = 0;
        self.colmod = None;
        self.caset = (0, self.fw - 1);
        self.raset = (0, self.fh - 1);
        self.vscrdef = None;
        self.vscsad = None;
        self.te = None;
        self.page = 0;
        self.ramwr = false;
        self.full = false;
    }

    pub fn hw_reset(&mut self) {
        self.finish_cmd();
        self.cur = None;
        self.hw_resets += 1;
        self.reset_regs();
    }

    #[inline]
    fn mv(&self) -> bool {
        self.madctl & 0x20 != 0
    }
    #[inline]
    fn col_extent(&self) -> u16 {
        if self.mv() { self.fh } else { self.fw }
    }
    #[inline]
    fn page_extent(&self) -> u16 {
        if self.mv() { self.fw } else { self.fh }
    }

    fn viol(&mut self, v: Viol) {
        if self.viols.len() < 64 {
            self.viols.push(v);
        }
    }

    /// One word latched by the device, with the level of the data/command line.
    #[inline]
    pub fn latch(&mut self, dc_high: bool, word: u16) {
        if !dc_high {
            self.n_cmd_words += 1;
            self.finish_cmd();
            self.start_cmd(word as u8);
        } else {
            match self.cur {
                None => self.viol(Viol::DataBeforeCommand),
                Some(op) => {
                    if !self.cur_opaque && (op == 0x2C || op == 0x3C) {
                        self.pixel_word(word);
                    } else {
                        if self.params.len() < 64 {
                            self.params.push(word as u8);
                        }
                    }
                }
            }
        }
    }

    fn start_cmd(&mut self, op: u8) {
        self.n_cmds += 1;
        self.cur = Some(op);
        self.cur_opaque = self.vendor_pages && self.page != 0 && op != 0xFE;
        self.params.clear();
        self.cur_pixels = 0;
        self.acc_n = 0;
        self.cur_t = self.now_ns;
        self.ramwr = false;
        if self.cur_opaque {
            return;
        }
        // commands whose effect is immediate
        match op {
            0x2C => {
                self.n_ramwr += 1;
                self.ramwr = true;
                self.ptr = (self.caset.0, self.raset.0);
                self.full = false;
                self.overrun_reported = false;
                self.check_window_at_ramwr();
            }
            0x3C => {
                self.n_ramwr += 1;
                self.ramwr = true;
            }
            _ => {}
        }
    }

    fn check_window_at_ramwr(&mut self) {
        let (ce, pe) = (self.col_extent(), self.page_extent());
        if self.caset.1 >= ce {
            let e = self.caset.1;
            self.viol(Viol::WindowExtent { op: 0x2C, end: e, extent: ce });
        }
        if self.raset.1 >= pe {
            let e = self.raset.1;
            self.viol(Viol::WindowExtent { op: 0x2C, end: e, extent: pe });
        }
    }

    /// Complete the current command: validate the parameter count and apply it.
    pub fn finish_cmd(&mut self) {
        let Some(op) = self.cur else { return };
        self.cur = None;
        if !self.cur_opaque && (op == 0x2C || op == 0x3C) && self.acc_n != 0 {
            let w = self.acc_n;
            self.viol(Viol::PartialPixel { words: w });
            self.acc_n = 0;
        }
        if self.keep_cmds {
            self.cmds.push(CmdRec {
                op,
                params: self.params.clone(),
                pixels: self.cur_pixels,
                t_ns: self.cur_t,
                opaque_page: self.cur_opaque,
            });
        }
        if self.cur_opaque {
            return;
        }
        let n = self.params.len();
        let want: Option<usize> = match op {
            0x00 | 0x01 | 0x10 | 0x11 | 0x12 | 0x13 | 0x20 | 0x21 | 0x28 | 0x29 | 0x34 | 0x38
            | 0x39 => Some(0),
            0x35 | 0x36 | 0x3A => Some(1),
            0x37 => Some(2),
            0x2A | 0x2B => Some(4),
            0x33 => Some(6),
            _ => None,
        };
        if let Some(w) = want {
            if n != w {
                self.viol(Viol::ParamCount { op, got: n, want: w });
                return;
            }
        }
        let p = self.params.clone();
        let be = |i: usize| -> u16 { ((p[i] as u16) << 8) | p[i + 1] as u16 };
        match op {
            0x01 => {
                self.soft_resets += 1;
                self.reset_regs();
            }
            0x10 => {
                self.sleeping = true;
                self.slp_events.push((0x10, self.cur_t));
            }
            0x11 => {
                self.sleeping = false;
                self.slp_events.push((0x11, self.cur_t));
            }
            0x12 => self.normal_mode = false,
            0x13 => self.normal_mode = true,
            0x20 => self.inverted = false,
            0x21 => self.inverted = true,
            0x28 => self.display_on = false,
            0x29 => self.display_on = true,
            0x38 => self.idle = false,
            0x39 => self.idle = true,
            0x34 => self.te = Some(None),
            0x35 => self.te = Some(Some(p[0])),
            0x36 => {
                self.madctl = p[0];
                self.n_madctl += 1;
            }
            0x3A => self.colmod = Some(p[0]),
            0x37 => self.vscsad = Some(be(0)),
            0x33 => self.vscrdef = Some((be(0), be(2), be(4))),
            0x2A => {
                self.n_caset += 1;
                let (s, e) = (be(0), be(2));
                if s > e {
                    self.viol(Viol::WindowOrder { op, start: s, end: e });
                }
                let ext = self.col_extent();
                if e >= ext {
                    self.viol(Viol::WindowExtent { op, end: e, extent: ext });
                }
                self.caset = (s, e);
            }
            0x2B => {
                self.n_raset += 1;
                let (s, e) = (be(0), be(2));
                if s > e {
                    self.viol(Viol::WindowOrder { op, start: s, end: e });
                }
                let ext = self.page_extent();
                if e >= ext {
                    self.viol(Viol::WindowExtent { op, end: e, extent: ext });
                }
                self.raset = (s, e);
            }
            0xFE if self.vendor_pages => {
                if n == 1 {
                    self.page = p[0];
                }
            }
            _ => {}
        }
    }

    /// words per pixel and decoder for the announced format on this bus
    #[inline]
    fn words_per_pixel(&self) -> Option<u8> {
        let dbi = self.colmod? & 0x07;
        match (self.bus16, dbi) {
            (false, 0b101) => Some(2),
            (false, 0b110) => Some(3),
            (true, 0b101) => Some(1),
            _ => None,
        }
    }

    #[inline]
    fn pixel_word(&mut self, word: u16) {
        let Some(wpp) = self.words_per_pixel() else {
            let c = self.colmod;
            if !matches!(self.viols.last(), Some(Viol::PixelFormat { .. })) {
                self.viol(Viol::PixelFormat { colmod: c });
            }
            return;
        };
        self.acc[self.acc_n as usize] = word;
        self.acc_n += 1;
        if self.acc_n < wpp {
            return;
        }
        self.acc_n = 0;
        self.last_raw = self.acc;
        if wpp < 3 {
            self.last_raw[2] = 0;
        }
        if wpp < 2 {
            self.last_raw[1] = 0;
        }
        let val = self.decode_acc(wpp);
        self.put_pixel(val);
    }

    /// (r,g,b) packed as r<<16 | g<<8 | b with the channel widths of the announced format
    #[inline]
    fn decode_acc(&self, wpp: u8) -> u32 {
        match wpp {
            1 => {
                let w = self.acc[0] as u32;
                ((w >> 11) & 31) << 16 | ((w >> 5) & 63) << 8 | (w & 31)
            }
            2 => {
                let w = ((self.acc[0] as u32 & 0xFF) << 8) | (self.acc[1] as u32 & 0xFF);
                ((w >> 11) & 31) << 16 | ((w >> 5) & 63) << 8 | (w & 31)
            }
            _ => {
                let r = (self.acc[0] as u32 & 0xFF) >> 2;
                let g = (self.acc[1] as u32 & 0xFF) >> 2;
                let b = (self.acc[2] as u32 & 0xFF) >> 2;
                r << 16 | g << 8 | b
            }
        }
    }

    #[inline]
    fn map_cell(&self, c: u16, r: u16) -> Option<(u16, u16)> {
        let (mut x, mut y) = if self.mv() { (r, c) } else { (c, r) };
        if x >= self.fw || y >= self.fh {
            return None;
        }
        if self.madctl & 0x40 != 0 {
            x = self.fw - 1 - x;
        }
        if self.madctl & 0x80 != 0 {
            y = self.fh - 1 - y;
        }
        Some((x, y))
    }

    #[inline]
    fn put_pixel(&mut self, val: u32) {
        self.n_pixels += 1;
        self.cur_pixels += 1;
        if !self.ramwr {
            self.viol(Viol::DataWithoutRamwr);
            return;
        }
        if self.full {
            if !self.overrun_reported {
                self.overrun_reported = true;
                self.viol(Viol::Overrun { extra_pixels: 1 });
            } else if let Some(Viol::Overrun { extra_pixels }) = self.viols.last_mut() {
                *extra_pixels += 1;
            }
        }
        let (c, r) = self.ptr;
        if let Some((x, y)) = self.map_cell(c, r) {
            self.mem.set(x, y, val);
        } // else: address outside the framebuffer, already reported at CASET/RASET/RAMWR
        // advance
        let (sc, ec) = self.caset;
        let (sp, ep) = self.raset;
        if c >= ec {
            // also covers a malformed window (start > end): one column
            if r >= ep {
                self.ptr = (sc, sp);
                self.full = true;
            } else {
                self.ptr = (sc, r + 1);
            }
        } else {
            self.ptr = (c + 1, r);
        }
    }

    /// Recording-interface repeat: `count` copies of one pixel.  Expansion stops one pixel after
    /// the window is full (the overrun is then already recorded with the exact surplus).
    pub fn repeat(&mut self, words: &[u16], count: u64) {
        if count == 0 {
            return;
        }
        let active = matches!(self.cur, Some(0x2C) | Some(0x3C)) && !self.cur_opaque && self.ramwr;
        let wpp = self.words_per_pixel();
        let well_formed = active
            && wpp == Some(words.len() as u8)
            && self.acc_n == 0
            && self.caset.0 <= self.caset.1
            && self.raset.0 <= self.raset.1
            && self.caset.1 < self.col_extent()
            && self.raset.1 < self.page_extent();
        if !well_formed {
            // generic path, bounded: anything malformed has been / will be reported per word
            let n = count.min(1 << 20);
            for _ in 0..n {
                for &w in words {
                    self.latch(true, w);
                }
            }
            return;
        }
        let wpp = wpp.unwrap();
        self.acc = [0; 3];
        for (i, &w) in words.iter().enumerate() {
            self.acc[i] = w;
        }
        self.last_raw = self.acc;
        let val = self.decode_acc(wpp);
        let (sc, ec) = self.caset;
        let (sp, ep) = self.raset;
        let ww = (ec - sc) as u64 + 1;
        let wh = (ep - sp) as u64 + 1;
        let area = ww * wh;
        if !self.mem.is_dense() && !self.full && count > 4096 {
            // symbolic, from wherever the write pointer stands: rest of the current row, full rows, remainder row
            let (pc, pr) = self.ptr;
            let pos = (pr - sp) as u64 * ww + (pc - sc) as u64;
            let remaining = area - pos;
            let n = count.min(remaining);
            let mut left = n;
            let (mut cc, mut rr) = (pc as u64, pr as u64);
            if cc != sc as u64 {
                let k = left.min(ec as u64 - cc + 1);
                self.sym_fill(cc as u16, rr as u16, (cc + k - 1) as u16, rr as u16, val);
                left -= k;
                cc += k;
                if cc > ec as u64 {
                    cc = sc as u64;
                    rr += 1;
                }
            }
            let rows = left / ww;
            if rows > 0 {
                self.sym_fill(sc, rr as u16, ec, (rr + rows - 1) as u16, val);
                rr += rows;
                left -= rows * ww;
            }
            if left > 0 {
                self.sym_fill(sc, rr as u16, (sc as u64 + left - 1) as u16, rr as u16, val);
                cc = sc as u64 + left;
            }
            self.n_pixels += count;
            self.cur_pixels += count;
            if n == remaining {
                self.full = true;
                self.ptr = (sc, sp);
            } else {
                self.ptr = (cc as u16, rr as u16);
            }
            if count > remaining {
                self.overrun_reported = true;
                self.viol(Viol::Overrun { extra_pixels: count - remaining });
            }
            return;
        }
        // explicit expansion, bounded by the window area + 1
        let n = count.min(area + 1);
        for _ in 0..n {
            self.put_pixel(val);
        }
        if count > n {
            let extra = count - n;
            self.n_pixels += extra;
            self.cur_pixels += extra;
            if let Some(Viol::Overrun { extra_pixels }) = self.viols.last_mut() {
                *extra_pixels += extra;
            }
        }
    }

    /// symbolic fill of the pointer-space rectangle (c0..=c1, r0..=r1)
    fn sym_fill(&mut self, c0: u16, r0: u16, c1: u16, r1: u16, val: u32) {
        let a = self.map_cell(c0, r0);
        let b = self.map_cell(c1, r1);
        if let (Some((xa, ya)), Some((xb, yb))) = (a, b) {
            self.mem.fill_rect(xa.min(xb), ya.min(yb), xa.max(xb), ya.max(yb), val);
        }
    }

    /// flush the pending command (end of an observation)
    pub fn flush(&mut self) {
        // the command stays "current" for following data, but its effects so far are applied:
        // only non-streaming commands need finishing; RAMWR stays open.
        if let Some(op) = self.cur {
            if self.cur_opaque || !(op == 0x2C || op == 0x3C) {
                self.finish_cmd();
            } else if self.acc_n != 0 {
                let w = self.acc_n;
                self.viol(Viol::PartialPixel { words: w });
                self.acc_n = 0;
            }
        }
    }

    /// digest of the register state (for outcome counting)
    pub fn reg_digest(&self) -> u64 {
        let mut h = crate::util::Fnv::new();
        h.u32(self.sleeping as u32);
        h.u32(self.display_on as u32);
        h.u32(self.inverted as u32);
        h.u32(self.madctl as u32);
        h.u32(self.colmod.map(|c| c as u32).unwrap_or(999));
        h.u32(self.caset.0 as u32);
        h.u32(self.caset.1 as u32);
        h.u32(self.raset.0 as u32);
        h.u32(self.raset.1 as u32);
        h.u32(self.viols.len() as u32);
        h.finish()
    }
}
