#!/usr/bin/env python3
# developer tool: regenerate the measured tables of DESIGN.md section 8.5-8.7 between the BEGIN/END markers
import json,glob,re,sys,os
root=os.path.dirname(os.path.abspath(__file__))
def table_quick():
    rows=["| id | level | evaluations | states | transitions | distinct outcomes | wall (s) | variants |","|---|---|---|---|---|---|---|---|"]
    for f in sorted(glob.glob(root+'/evidence/C*.json')):
        e=json.load(open(f)); c=e['coverage']
        rows.append("| %s | %s | %d | %d | %d | %d | %.1f | %s |"%(e['property_id'],e['level'],c['evaluations'],c['states'],c['transitions'],c.get('distinct_outcomes',0),e['wall_s'],", ".join(sorted(c.get('per_variant',{}).keys()))))
    return "\n".join(rows)
def table_thorough(log):
    rows=["| id | wall (s) | evaluations | states | transitions | violations |","|---|---|---|---|---|---|"]
    if not os.path.exists(log): return "(no thorough log)"
    for l in open(log):
        m=re.match(r"(C\d\d) (\d+)s .*evaluations=(\d+) .*states=(\d+) transitions=(\d+) .*violations=(\d+)",l)
        if m: rows.append("| %s | %s | %s | %s | %s | %s |"%m.groups())
    return "\n".join(rows)
def table_mutants():
    rows=["| mutant | property | tier | repo tests | check exit | signatures reported |","|---|---|---|---|---|---|"]
    p=root+'/mutants/results.tsv'
    if not os.path.exists(p): return "(no results)"
    for l in open(p):
        f=l.rstrip("\n").split("\t")
        if len(f)<6: continue
        f+=['']
        rows.append("| %s | %s | %s | %s | %s | %s |"%(f[0],f[1],f[2].replace('tier=',''),f[3].replace('tests=',''),f[4].replace('exit=',''),f[6].replace('[','').replace(']','')))
    return "\n".join(rows)
def table_seeds(log):
    rows=["| seed | confirmed (suite passes, demo fails with / passes without) | checks run: exit and first signatures |","|---|---|---|"]
    if not os.path.exists(log): return "(no seed log)"
    for l in open(log):
        if not l.startswith('seed='): continue
        m=re.match(r"seed=\S*seeded/(C\d\d-\d)/? (.*?) \| (.*)",l.strip())
        if not m: continue
        conf='yes' if 'demo_clean=pass suite=pass nobatch_build=ok demo_patched=fail' in m.group(2) else m.group(2)
        rows.append("| %s | %s | %s |"%(m.group(1),conf,m.group(3).replace('|','/').replace('[','').replace(']','')))
    return "\n".join(rows)
def put(s,name,body):
    b="<!-- BEGIN %s -->"%name; e="<!-- END %s -->"%name
    if b not in s: return s
    i=s.index(b)+len(b); j=s.index(e)
    return s[:i]+"\n"+body+"\n"+s[j:]
s=open(root+'/DESIGN.md').read()
s=put(s,'QUICK',table_quick())
s=put(s,'THOROUGH',table_thorough(sys.argv[1] if len(sys.argv)>1 else ''))
s=put(s,'MUTANTS',table_mutants())
s=put(s,'SEEDS',table_seeds(sys.argv[2] if len(sys.argv)>2 else ''))
open(root+'/DESIGN.md','w').write(s)
