#!/usr/bin/env python3
# developer tool: regenerate the measured tables of DESIGN.md section 8.5-8.7 between the BEGIN/END markers
import json,glob,re,sys,os
root=os.path.dirname(os.path.abspath(__file__))
def table_quick():
    rows=["| id | level | evaluations | states | transitions | distinct outcomes | wall (s) | variants |","|---|---|---|---|---|---|---|---|"]
    for f in sorted(glob.glob(root+'/evidence/C*.json')):
        e=json.load(open(f)); c=e['coverage']
        rows.append("| %s | %s | %d | %d | %d | %d | %.1f | %s |"%(e['property_id'],e['level'],c['evaluations'],c['states'],c['transitions'],c.get('distinct_outcomes',0),e['wall_s'],", ".join(sorted(c.get('per_variant',{}).keys()))))
    return "\n".join(rows)
def table_thorough(log):
    rows=["| id | wall (s) | evaluations | states | transitions | violations |","|---|---|---|---|---|---|"]
    if not os.path.exists(log): return "(no thorough log)"
    for l in open(log):
        m=re.match(r"(C\d\d) (\d+)s .*evaluations=(\d+) .*states=(\d+) transitions=(\d+) .*violations=(\d+)",l)
        if m: rows.append("| %s | %s | %s | %s | %s | %s |"%m.groups())
    return "\n".join(rows)
def table_mutants():
    rows=["| mutant | property | tier | repo tests | check exit | signatures reported |","|---|---|---|---|---|---|"]
    p=root+'/mutants/results.tsv'
    if not os.path.exists(p): return "(no results)"
    for l in open(p):
        f=l.rstrip("\n").split("\t")
        if len(f)<6: continue
        f+=['']
        rows.append("| %s | %s | %s | %s | %s | %s |"%(f[0],f[1],f[2].replace('tier=',''),f[3].replace('tests=',''),f[4].replace('exit=',''),f[6].replace('[','').replace(']','')))
    return "\n".join(rows)
def table_seeds(log):
    rows=["| seed | confirmed (suite passes, demo fails with / passes without) | checks run: exit and first signatures |","|---|---|---|"]
    logs=[x for x in log.split(',') if os.path.exists(x)]
    if not logs: return "(no seed log)"
    got={}
    import itertools
    for l in itertools.chain.from_iterable(open(x) for x in logs):
        if not l.startswith('seed='): continue
        m=re.match(r"seed=\S*seeded/(C\d\d-\d+)/? (.*?) \| (.*)",l.strip())
        if not m: continue
        if 'demo_clean=pass suite=pass nobatch_build=ok demo_patched=fail' in m.group(2): conf='yes'
        elif 'confirmation skipped' in m.group(2): conf='yes (confirmed in the run of the round that produced it)'
        else: conf=m.group(2)
        got[m.group(1)]="| %s | %s | %s |"%(m.group(1),conf,m.group(3).replace('|','/').replace('[','').replace(']',''))
    key=lambda k:(k.split('-')[0],int(k.split('-')[1]))
    return "\n".join(rows+[got[k] for k in sorted(got,key=key)])
def table_safe(log):
    rows=["| change | summary (from the sub-agent) | repository suite | checks that did not exit 0 (all runs) |","|---|---|---|---|"]
    logs=[x for x in log.split(',') if os.path.exists(x)]
    if not logs: return "(no log)"
    got={}
    for lg in logs:
        for l in open(lg):
            if not l.startswith('patch='): continue
            m=re.match(r"patch=\S*safe_changes/(\w+)/patch.diff (.*?) \| (.*)",l.strip())
            if not m: continue
            try: summ=json.load(open(root+'/safe_changes/%s/meta.json'%m.group(1))).get('summary','')
            except Exception: summ=''
            alarms=re.sub(r"\s*\|?\s*alarms=\d+","",m.group(3)).strip().strip('|').strip()
            e=got.setdefault(m.group(1),[summ.replace('|','/')[:260],m.group(2),set()])
            for a in alarms.split('|'):
                a=a.strip()
                if a: e[2].add(re.sub(r"\[|\]","",a).split(';')[0])
    return "\n".join(rows+["| %s | %s | %s | %s |"%(k,got[k][0],got[k][1],"; ".join(sorted(got[k][2])) or 'none') for k in sorted(got)])
def put(s,name,body):
    b="<!-- BEGIN %s -->"%name; e="<!-- END %s -->"%name
    if b not in s: return s
    i=s.index(b)+len(b); j=s.index(e)
    return s[:i]+"\n"+body+"\n"+s[j:]
s=open(root+'/DESIGN.md').read()
s=put(s,'QUICK',table_quick())
s=put(s,'THOROUGH',table_thorough(sys.argv[1] if len(sys.argv)>1 else ''))
s=put(s,'MUTANTS',table_mutants())
s=put(s,'SEEDS',table_seeds(sys.argv[2] if len(sys.argv)>2 else ''))
s=put(s,'SAFE',table_safe(sys.argv[3] if len(sys.argv)>3 else ''))
open(root+'/DESIGN.md','w').write(s)
