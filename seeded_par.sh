#!/bin/bash
# developer tool: seeded_all.sh in N parallel slots (default 4); output lines are unordered
cd "$(dirname "$(readlink -f "$0")")"
N=${SLOTS:-4}
props="${@:-C01 C02 C03 C04 C05 C06 C07 C08 C09 C10 C11 C12 C13 C14 C15 C16 C17 C18 C19 C20}"
list=""
for p in $props; do for d in seeded/$p-*/; do list="$list $(basename $d)"; done; done
slot() {
  k=$1; i=0
  for id in $list; do
    if [ $((i % N)) = $k ]; then
      prop=${id%%-*}
      extra=""; [ -n "${WITH_EXTRA:-}" ] && extra=$(grep "^$id " seeded/extra.txt 2>/dev/null | cut -d" " -f2-)
      SEED_TARGET=/tmp/seedtest-target-$$-$k ./seedtest seeded/$id $prop $extra 2>&1 | tail -1
    fi
    i=$((i+1))
  done
  rm -rf /tmp/seedtest-target-$$-$k
}
for k in $(seq 0 $((N-1))); do slot $k & done
wait
