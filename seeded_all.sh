#!/bin/bash
# developer tool: confirm every seeded change (suite passes with it, demo fails with it / passes without) and run
# the check of the property it breaks (plus extra checks given in seeded/extra.txt) against it
cd "$(dirname "$(readlink -f "$0")")"
for d in seeded/C*/; do
  id=$(basename $d); prop=${id%%-*}
  extra=$(grep "^$id " seeded/extra.txt 2>/dev/null | cut -d' ' -f2-)
  ./seedtest $d $prop $extra 2>&1 | tail -1
done
