#!/bin/bash
# developer tool: confirm every seeded change (suite passes with it, demo fails with it / passes without) and run
# the check of the property it breaks (plus extra checks given in seeded/extra.txt) against it.
# usage: seeded_all.sh [property-id ...]   (default: all)
cd "$(dirname "$(readlink -f "$0")")"
props="${@:-C01 C02 C03 C04 C05 C06 C07 C08 C09 C10 C11 C12 C13 C14 C15 C16 C17 C18 C19 C20}"
for p in $props; do
 for d in seeded/$p-*/; do
  id=$(basename $d); prop=${id%%-*}
  extra=$(grep "^$id " seeded/extra.txt 2>/dev/null | cut -d' ' -f2-)
  ./seedtest $d $prop $extra 2>&1 | tail -1
 done
done
