#!/bin/bash
# developer tool: run every thorough tier once and report wall time (not part of MANIFEST)
cd "$(dirname "$(readlink -f "$0")")"
./setup.sh || exit 2
for i in ${@:-01 02 03 04 05 06 07 08 09 10 11 12 13 14 15 16 17 18 19 20}; do
  s=$(date +%s)
  out=$(./check C$i --tier thorough 2>&1 | grep -E "^C$i|VIOLATION|MACHINERY" | head -4 | tr '\n' ' ')
  e=$(date +%s)
  echo "C$i $((e-s))s $out"
done
